package obfs

// C14 — Gecko reassembles handshake packets exactly with bounded state.
//
// Send side: exported WrapPacketConnGecko over a recording fake; every datagram
// is un-Salamandered and parsed with the harness's own frame decoder.
// Receive side: newGeckoPacketConn over a raw fake, driven frame by frame inside a
// testing/synctest bubble (virtual time for the 8 s TTL / 4 s GC ticker) with
// frames built by the harness's own encoder, against a reference table model.
// The model is strict where the statement is determinate (no cap reached and
// within TTL => stored and completed exactly once, byte-identical, with its
// source; older than TTL+GC period => gone; caps never exceeded; perSource ==
// census) and follows the implementation's table where the statement leaves the
// policy open (which message loses when a cap is hit, expiry inside the GC window).

import (
	"bytes"
	"encoding/binary"
	"errors"
	"fmt"
	"net"
	"sort"
	"strings"
	"sync"
	"syscall"
	"testing"
	"testing/synctest"
	"time"

	"golang.org/x/crypto/blake2b"
	"pgregory.net/rapid"
)

// ------------------------------------------------------------------ constants taken from the statement

const (
	v14PerSourceCap = 8
	v14GlobalCap    = 4096
	v14TTL          = 8 * time.Second
	v14GCPeriod     = 4 * time.Second // the sweeper's period: an entry may outlive its TTL by at most this
	v14SaltLen      = 8
	v14HeaderLen    = 5
)

// ------------------------------------------------------------------ independent codecs

// v14Unsalamander: PROTOCOL.md composition (same text as C13's oracle, duplicated so the files stay independent).
func v14Unsalamander(key, wire []byte) ([]byte, bool) {
	if len(wire) < v14SaltLen+1 {
		return nil, false
	}
	h, _ := blake2b.New256(nil)
	h.Write(key)
	h.Write(wire[:v14SaltLen])
	ks := h.Sum(nil)
	out := make([]byte, len(wire)-v14SaltLen)
	for i := range out {
		out[i] = wire[v14SaltLen+i] ^ ks[i%32]
	}
	return out, true
}

type v14Frame struct {
	b0         byte
	id         uint8
	idx, total int
	padLen     int
	chunk      []byte
}

// v14EncodeRaw writes the 5-byte header verbatim (also used for ill-formed frames).
func v14EncodeRaw(b0 byte, id uint8, idx, total int, padLenField int, pad, chunk []byte) []byte {
	out := make([]byte, 0, v14HeaderLen+len(pad)+len(chunk))
	out = append(out, b0, id, byte(idx<<4)|byte(total&0x0f), 0, 0)
	binary.BigEndian.PutUint16(out[3:5], uint16(padLenField))
	out = append(out, pad...)
	out = append(out, chunk...)
	return out
}

// v14DecodeFrame is the harness's own reading of the frame layout:
// byte0 top bit set | msgID | idx:4 total:4 | padLen:16 | pad | chunk.
func v14DecodeFrame(in []byte) (v14Frame, error) {
	if len(in) < v14HeaderLen {
		return v14Frame{}, fmt.Errorf("frame of %d bytes is shorter than the 5-byte header", len(in))
	}
	f := v14Frame{b0: in[0], id: in[1], idx: int(in[2] >> 4), total: int(in[2] & 0x0f), padLen: int(in[3])<<8 | int(in[4])}
	if f.b0&0x80 == 0 {
		return f, fmt.Errorf("fragment marker (top bit of byte 0) not set: %02x", f.b0)
	}
	if f.total < 2 || f.total > 8 {
		return f, fmt.Errorf("chunk count %d outside 2..8", f.total)
	}
	if f.idx >= f.total {
		return f, fmt.Errorf("chunk index %d >= count %d", f.idx, f.total)
	}
	if v14HeaderLen+f.padLen > len(in) {
		return f, fmt.Errorf("padLen %d runs past the %d-byte frame", f.padLen, len(in))
	}
	f.chunk = in[v14HeaderLen+f.padLen:]
	return f, nil
}

// ------------------------------------------------------------------ fake inner socket

var errV14Empty = errors.New("v14: nothing queued")

type v14Pkt struct {
	data []byte
	addr net.Addr
}

type v14Fake struct {
	local net.Addr
	mu    sync.Mutex
	inbox []v14Pkt
	sent  []v14Pkt
}

func (c *v14Fake) ReadFrom(p []byte) (int, net.Addr, error) {
	c.mu.Lock()
	defer c.mu.Unlock()
	if len(c.inbox) == 0 {
		return 0, nil, errV14Empty
	}
	pk := c.inbox[0]
	c.inbox = c.inbox[1:]
	return copy(p, pk.data), pk.addr, nil
}

func (c *v14Fake) WriteTo(p []byte, addr net.Addr) (int, error) {
	c.mu.Lock()
	c.sent = append(c.sent, v14Pkt{append([]byte(nil), p...), addr})
	c.mu.Unlock()
	return len(p), nil
}

func (c *v14Fake) push(data []byte, addr net.Addr) {
	c.mu.Lock()
	c.inbox = append(c.inbox, v14Pkt{data, addr})
	c.mu.Unlock()
}

func (c *v14Fake) take() []v14Pkt {
	c.mu.Lock()
	defer c.mu.Unlock()
	s := c.sent
	c.sent = nil
	return s
}

func (c *v14Fake) Close() error                       { return nil }
func (c *v14Fake) LocalAddr() net.Addr                { return c.local }
func (c *v14Fake) SetDeadline(_ time.Time) error      { return nil }
func (c *v14Fake) SetReadDeadline(_ time.Time) error  { return nil }
func (c *v14Fake) SetWriteDeadline(_ time.Time) error { return nil }

// v14FakeUDP is the same recording socket, but "UDP-like" (SyscallConn / SetReadBuffer / SetWriteBuffer):
// the package then wraps it in its UDP variant (obfsPacketConnUDP), as it does for a real *net.UDPConn.
type v14FakeUDP struct{ *v14Fake }

func (v14FakeUDP) SyscallConn() (syscall.RawConn, error) { return nil, errors.ErrUnsupported }
func (v14FakeUDP) SetReadBuffer(int) error               { return nil }
func (v14FakeUDP) SetWriteBuffer(int) error              { return nil }

func v14Inner(f *v14Fake, udpLike bool) net.PacketConn {
	if udpLike {
		return v14FakeUDP{f}
	}
	return f
}

func v14Bytes(n int, seed uint32) []byte {
	b := make([]byte, n)
	x := seed*2654435761 + 0x7f4a7c15
	for i := range b {
		x ^= x << 13
		x ^= x >> 17
		x ^= x << 5
		b[i] = byte(x >> 9)
	}
	return b
}

func v14MinInt(a, b int) int {
	if a < b {
		return a
	}
	return b
}

// ------------------------------------------------------------------ adapter: the two state variables the property names

func v14TableLen(g *geckoPacketConn) int {
	g.mu.Lock()
	defer g.mu.Unlock()
	return len(g.reassembly)
}

func v14TableHas(g *geckoPacketConn, addr string, id uint8) bool {
	g.mu.Lock()
	defer g.mu.Unlock()
	_, ok := g.reassembly[reassemblyKey{addr: addr, msgID: id}]
	return ok
}

func v14PerSourceOf(g *geckoPacketConn, addr string) int {
	g.mu.Lock()
	defer g.mu.Unlock()
	return g.perSource[addr]
}

type v14AddrID struct {
	addr string
	id   uint8
}

// v14Snapshot copies the key set of the table and the perSource counters.
func v14Snapshot(g *geckoPacketConn) (keys map[v14AddrID]bool, per map[string]int) {
	g.mu.Lock()
	defer g.mu.Unlock()
	keys = make(map[v14AddrID]bool, len(g.reassembly))
	for k := range g.reassembly {
		keys[v14AddrID{k.addr, k.msgID}] = true
	}
	per = make(map[string]int, len(g.perSource))
	for a, n := range g.perSource {
		per[a] = n
	}
	return
}

// ================================================================== send side

type v14Cfg struct{ min, max int } // as passed to GeckoOptions (0 = default)

func (c v14Cfg) effective() (int, int) {
	lo, hi := c.min, c.max
	if lo == 0 {
		lo = 512
	}
	if hi == 0 {
		hi = 1200
	}
	return lo, hi
}

// valid (min,max) pairs only: 0 < min <= max <= 2048, or 0 for the documented defaults 512/1200.
func v14GenCfg(t *rapid.T, hintLen int) v14Cfg {
	switch rapid.IntRange(0, 7).Draw(t, "cfgKind") {
	case 0:
		return v14Cfg{0, 0}
	case 1: // min == max: padding has exactly one legal value
		m := rapid.OneOf(rapid.IntRange(1, 2048), rapid.SampledFrom([]int{13, 14, 64, 512, 1200, 1500, 2048})).Draw(t, "minmax")
		return v14Cfg{m, m}
	case 2: // narrow window
		lo := rapid.IntRange(1, 2040).Draw(t, "min")
		return v14Cfg{lo, lo + rapid.IntRange(0, 8).Draw(t, "width")}
	case 3: // max near salt+header+chunk for some chunk count: the "can it fit" boundary
		k := rapid.IntRange(2, 8).Draw(t, "hintChunks")
		hi := v14SaltLen + v14HeaderLen + hintLen/k + rapid.IntRange(-3, 10).Draw(t, "dMax")
		if hi < 1 {
			hi = 1
		}
		if hi > 2048 {
			hi = 2048
		}
		lo := hi - rapid.IntRange(0, 20).Draw(t, "width")
		if lo < 1 {
			lo = 1
		}
		return v14Cfg{lo, hi}
	case 4:
		return v14Cfg{1, 2048}
	case 5: // 0 for one side only where that is still valid
		if rapid.Bool().Draw(t, "zeroMin") {
			return v14Cfg{0, rapid.IntRange(512, 2048).Draw(t, "max")}
		}
		return v14Cfg{rapid.IntRange(1, 1200).Draw(t, "min"), 0}
	default:
		lo := rapid.IntRange(1, 2048).Draw(t, "min")
		return v14Cfg{lo, rapid.IntRange(lo, 2048).Draw(t, "max")}
	}
}

// v14GenAnyCfg: every option combination (both set, only min, only max, neither), values below / at /
// above the documented defaults (512 / 1200) and the legal bounds (1 / 2048), including illegal ones.
func v14GenAnyCfg(t *rapid.T) v14Cfg {
	side := func(label string) int {
		return rapid.OneOf(
			rapid.Just(0), // unset
			rapid.SampledFrom([]int{-1, 1, 12, 13, 14, 100, 511, 512, 513, 800, 1199, 1200, 1201, 1400, 2047, 2048, 2049, 4000}),
			rapid.IntRange(1, 2048),
		).Draw(t, label)
	}
	return v14Cfg{side("optMin"), side("optMax")}
}

// valid says whether the options describe a usable range by the documented rules:
// 0 means default (512 / 1200), and then 1 <= min <= max <= 2048.
func (c v14Cfg) valid() bool {
	lo, hi := c.effective()
	return c.min >= 0 && c.max >= 0 && lo >= 1 && lo <= hi && hi <= 2048
}

func v14GenPktLen(t *rapid.T) int {
	return rapid.OneOf(
		rapid.SampledFrom([]int{1, 2, 3, 7, 8, 9, 15, 16, 17, 1187, 1188, 1200, 1252, 1499, 1500}),
		rapid.IntRange(1, 64),
		rapid.IntRange(1, 1500),
	).Draw(t, "pktLen")
}

// v14CheckSend validates the datagrams one WriteTo of a long-header packet p produced.
func v14CheckSend(key, p []byte, dgrams []v14Pkt, dst net.Addr, lo, hi int) (chunks int, fit int, err error) {
	if len(dgrams) < 2 || len(dgrams) > 8 {
		return len(dgrams), 0, fmt.Errorf("%d datagrams emitted, want 2..8", len(dgrams))
	}
	parts := make([][]byte, len(dgrams))
	seen := make([]bool, len(dgrams))
	var id uint8
	for i, d := range dgrams {
		if d.addr == nil || d.addr.String() != dst.String() {
			return len(dgrams), fit, fmt.Errorf("datagram %d sent to %v, want %v", i, d.addr, dst)
		}
		inner, ok := v14Unsalamander(key, d.data)
		if !ok {
			return len(dgrams), fit, fmt.Errorf("datagram %d has only %d bytes (no room for salt + frame)", i, len(d.data))
		}
		f, derr := v14DecodeFrame(inner)
		if derr != nil {
			return len(dgrams), fit, fmt.Errorf("datagram %d does not decode as a frame: %v (header %x)", i, derr, inner[:v14MinInt(len(inner), 5)])
		}
		if f.total != len(dgrams) {
			return len(dgrams), fit, fmt.Errorf("datagram %d announces %d chunks but %d datagrams were emitted", i, f.total, len(dgrams))
		}
		if i == 0 {
			id = f.id
		} else if f.id != id {
			return len(dgrams), fit, fmt.Errorf("datagram %d carries message id %d, datagram 0 carries %d", i, f.id, id)
		}
		if seen[f.idx] {
			return len(dgrams), fit, fmt.Errorf("chunk index %d emitted twice", f.idx)
		}
		seen[f.idx] = true
		parts[f.idx] = f.chunk
		// size: salt + header + pad + chunk must lie in [min,max] whenever salt + header + chunk can
		base := v14SaltLen + v14HeaderLen + len(f.chunk)
		if base <= hi {
			fit++
			if len(d.data) < lo || len(d.data) > hi {
				return len(dgrams), fit, fmt.Errorf("datagram %d is %d bytes on the wire (chunk %d, pad %d), outside [%d,%d] although salt+header+chunk=%d fits", i, len(d.data), len(f.chunk), f.padLen, lo, hi, base)
			}
		}
	}
	cat := bytes.Join(parts, nil)
	if !bytes.Equal(cat, p) {
		return len(dgrams), fit, fmt.Errorf("chunks concatenate to %d bytes %x…, packet is %d bytes %x…", len(cat), cat[:v14MinInt(len(cat), 12)], len(p), p[:v14MinInt(len(p), 12)])
	}
	return len(dgrams), fit, nil
}

func TestVerifC14_Send(t *testing.T) {
	st := newVStats("TestVerifC14_Send")
	defer st.Flush()
	seenChunks := map[int]int{}
	defer func() { st.Extra("observed_chunk_counts", fmt.Sprint(seenChunks)) }()
	if w, err := WrapPacketConnSalamander(v14FakeUDP{&v14Fake{}}, []byte("probe-key")); err == nil {
		_, isUDP := w.(*obfsPacketConnUDP)
		st.Extra("udp_like_fake_selects_udp_variant", isUDP)
	}
	rapid.Check(t, func(rt *rapid.T) {
		key := v14Bytes(rapid.IntRange(4, 40).Draw(rt, "pwLen"), rapid.Uint32().Draw(rt, "pwSeed"))
		nl := rapid.IntRange(1, 4).Draw(rt, "nLens")
		lens := make([]int, nl)
		for i := range lens {
			lens[i] = v14GenPktLen(rt)
		}
		var cfg v14Cfg
		if rapid.IntRange(0, 2).Draw(rt, "anyCfg") == 0 {
			cfg = v14GenAnyCfg(rt)
		} else {
			cfg = v14GenCfg(rt, lens[0])
		}
		lo, hi := cfg.effective()
		oneSided := (cfg.min == 0) != (cfg.max == 0)
		udpLike := rapid.Bool().Draw(rt, "udpLikeInner") // plain PacketConn or the UDP variant of the wrapper underneath
		fake := &v14Fake{local: &net.UDPAddr{IP: net.IPv4(10, 14, 0, 1), Port: 1}}
		g, err := WrapPacketConnGecko(v14Inner(fake, udpLike), GeckoOptions{Password: key, MinPacketSize: cfg.min, MaxPacketSize: cfg.max})
		if err != nil {
			if cfg.valid() {
				rt.Fatalf("C14 send: valid options min=%d max=%d (effective [%d,%d]) refused: %v", cfg.min, cfg.max, lo, hi, err)
			}
			// an unusable configuration was rejected: nothing can be emitted outside a range
			st.Case(false, fmt.Sprintf("rejected/%d/%d", cfg.min, cfg.max), []string{"cfg-rejected"}, func() string {
				return fmt.Sprintf("options min=%d max=%d (effective [%d,%d]) rejected: %v", cfg.min, cfg.max, lo, hi, err)
			})
			return
		}
		defer g.Close()
		// accepted: the effective range [min or 512, max or 1200] is what every datagram that can fit must respect;
		// an accepted configuration whose effective range is empty is reported after the writes (with the datagrams, if any fit)

		nw := rapid.IntRange(64, 96).Draw(rt, "writes")
		shortEvery := rapid.IntRange(2, 9).Draw(rt, "shortEvery")
		seed := rapid.Uint32().Draw(rt, "contentSeed")
		dst := &net.UDPAddr{IP: net.IPv4(10, 14, 0, 2), Port: 443}
		counts := map[int]int{}
		fits, longs, shorts := 0, 0, 0
		var obs []string
		defer func() { // recorded when the case ends, also when it ends in a failure
			var cl []string
			for k, n := range counts {
				seenChunks[k] += n
				cl = append(cl, fmt.Sprintf("chunks=%d", k))
			}
			sort.Strings(cl)
			if lo == hi {
				cl = append(cl, "min==max")
			}
			if oneSided {
				cl = append(cl, "one-sided-options")
			}
			if udpLike {
				cl = append(cl, "udp-like-inner")
			} else {
				cl = append(cl, "plain-inner")
			}
			if fits == 0 {
				cl = append(cl, "nothing-fits")
			}
			st.Case(longs > 0 && fits > 0, fmt.Sprintf("%v/%d/%d/%v", lens, lo, hi, udpLike), cl, func() string {
				return fmt.Sprintf("udpLikeInner=%v lens=%v min=%d max=%d writes=%d (long %d, short %d) chunk-count histogram=%v first=%v", udpLike, lens, lo, hi, nw, longs, shorts, counts, obs)
			})
		}()
		for w := 0; w < nw; w++ {
			p := v14Bytes(lens[w%nl], seed+uint32(w))
			long := w%shortEvery != 0
			if long {
				p[0] |= 0x80
			} else {
				p[0] &= 0x7f
			}
			keep := append([]byte(nil), p...)
			_, werr := g.WriteTo(p, dst)
			d := fake.take()
			if werr != nil {
				rt.Fatalf("C14 send: WriteTo(%d bytes, long=%v) with min=%d max=%d failed: %v", len(keep), long, lo, hi, werr)
			}
			if !long {
				shorts++
				if len(d) != 1 {
					rt.Fatalf("C14 send: short-header packet of %d bytes produced %d datagrams, want 1 (pass-through)", len(keep), len(d))
				}
				inner, ok := v14Unsalamander(key, d[0].data)
				if !ok || !bytes.Equal(inner, keep) {
					rt.Fatalf("C14 send: short-header packet of %d bytes did not pass through unchanged: wire carries %d bytes %x…, want %x…", len(keep), len(inner), inner[:v14MinInt(len(inner), 12)], keep[:v14MinInt(len(keep), 12)])
				}
				continue
			}
			longs++
			k, fit, cerr := v14CheckSend(key, keep, d, dst, lo, hi)
			counts[k]++
			fits += fit
			if len(obs) < 12 {
				sz := make([]int, len(d))
				for i := range d {
					sz[i] = len(d[i].data)
				}
				obs = append(obs, fmt.Sprintf("len=%d->%v", len(keep), sz))
			}
			if cerr != nil {
				sz := make([]int, len(d))
				for i := range d {
					sz[i] = len(d[i].data)
				}
				rt.Fatalf("C14 send: packet of %d bytes, min=%d max=%d, inner socket udp-like=%v, write #%d, wire sizes %v: %v", len(keep), lo, hi, udpLike, w, sz, cerr)
			}
		}
		if lo > hi {
			rt.Fatalf("C14 send: options min=%d max=%d were accepted although the effective range [%d,%d] (0 = default 512/1200) is empty: no datagram can lie inside it", cfg.min, cfg.max, lo, hi)
		}
	})
}

// ================================================================== receive side: reference model

type v14Msg struct {
	seq     int
	src     int
	id      uint8
	chunks  [][]byte
	full    []byte
	deliv   []int // deliveries per chunk over the whole case
	returns int
	tracked bool
}

type v14Entry struct {
	m       *v14Msg
	got     uint16
	n       int
	first   time.Time
	order   []int
	foreign bool
	tainted bool // a well-formed frame with the same (source, id) but another chunk count arrived: what happens to the entry is the implementation's policy
}

type v14Key struct {
	src int
	id  uint8
}

type v14Model struct {
	g        *geckoPacketConn
	fake     *v14Fake
	addrs    []net.Addr
	addrStr  []string
	srcOf    map[string]int
	entries  map[v14Key]*v14Entry
	cnt      map[int]int
	ages     map[int64]int // census of first-arrival times (for the oldest-victim oracle)
	buf      []byte
	trace    []string
	traceOff bool
	fail     string
	full     bool // compare the whole key set after every step (small tables)
	steps    int
	padSeed  uint32

	// events for NT / classes
	evCap, evExpire, evEvict, evComplete, evNTOrder, evDup, evIll, evShort, evReuse, evCollision, evLateDup, evConflict int
	capped                                                                                                              map[int]bool
	// the same counters frozen before the fixed final phase (forget everything, lock-out probe)
	snapped                                      bool
	mainCap, mainExpire, mainEvict, mainComplete int
}

func (md *v14Model) snap() {
	if !md.snapped {
		md.snapped = true
		md.mainCap, md.mainExpire, md.mainEvict, md.mainComplete = md.evCap, md.evExpire, md.evEvict, md.evComplete
	}
}

func v14NewModel(nsrc int, full bool) *v14Model {
	md := &v14Model{entries: map[v14Key]*v14Entry{}, cnt: map[int]int{}, ages: map[int64]int{}, srcOf: map[string]int{}, buf: make([]byte, 2048), full: full, capped: map[int]bool{}}
	md.fake = &v14Fake{local: &net.UDPAddr{IP: net.IPv4(10, 14, 255, 1), Port: 443}}
	for i := 0; i < nsrc; i++ {
		// sources 2i and 2i+1 share an IP and differ in the port only
		a := &net.UDPAddr{IP: net.IPv4(10, 20+byte((i/2)>>8), byte(i/2), 7), Port: 40000 + i%2}
		md.addrs = append(md.addrs, a)
		md.addrStr = append(md.addrStr, a.String())
		md.srcOf[a.String()] = i
	}
	return md
}

func (md *v14Model) failf(f string, a ...any) {
	if md.fail == "" {
		md.fail = fmt.Sprintf(f, a...)
	}
}

func (md *v14Model) log(f string, a ...any) {
	if !md.traceOff {
		md.trace = append(md.trace, fmt.Sprintf(f, a...))
	}
}

func (md *v14Model) history() string {
	t := md.trace
	if len(t) > 120 {
		t = append([]string{fmt.Sprintf("…(%d earlier steps)…", len(t)-120)}, t[len(t)-120:]...)
	}
	return strings.Join(t, " ")
}

type v14Out struct {
	data []byte
	addr string
}

// feed hands one datagram to the inner socket and lets the implementation read once.
func (md *v14Model) feed(src int, frame []byte) *v14Out {
	md.steps++
	md.fake.push(frame, md.addrs[src])
	n, addr, err := md.g.ReadFrom(md.buf)
	if err != nil {
		if !errors.Is(err, errV14Empty) {
			md.failf("ReadFrom returned unexpected error %v", err)
		}
		return nil
	}
	a := "<nil>"
	if addr != nil {
		a = addr.String()
	}
	out := &v14Out{append([]byte(nil), md.buf[:n]...), a}
	// the implementation must not have left a second packet behind
	if n2, _, err2 := md.g.ReadFrom(md.buf); err2 == nil {
		md.failf("one datagram produced two packets (second one %d bytes)", n2)
	}
	return out
}

func (md *v14Model) describe(out *v14Out, all []*v14Msg) string {
	for _, m := range all {
		if bytes.Equal(out.data, m.full) {
			return fmt.Sprintf("%d bytes equal to message #%d (source s%d id %d), attributed to %s", len(out.data), m.seq, m.src, m.id, out.addr)
		}
	}
	return fmt.Sprintf("%d bytes %x… equal to NO sent message (mixture / truncation), attributed to %s", len(out.data), out.data[:v14MinInt(len(out.data), 16)], out.addr)
}

func (md *v14Model) addEntry(k v14Key, e *v14Entry) {
	md.entries[k] = e
	md.cnt[k.src]++
	md.ages[e.first.UnixNano()]++
}

func (md *v14Model) delEntry(k v14Key) {
	e := md.entries[k]
	if e == nil {
		return
	}
	delete(md.entries, k)
	md.cnt[k.src]--
	if md.cnt[k.src] == 0 {
		delete(md.cnt, k.src)
	}
	md.ages[e.first.UnixNano()]--
	if md.ages[e.first.UnixNano()] == 0 {
		delete(md.ages, e.first.UnixNano())
	}
}

func (md *v14Model) oldest() int64 {
	var o int64
	first := true
	for t := range md.ages {
		if first || t < o {
			o, first = t, false
		}
	}
	return o
}

// deliver sends chunk j of message m (fresh padding) and checks the outcome against the model.
func (md *v14Model) deliver(m *v14Msg, j int, padLen int, all []*v14Msg) {
	k := v14Key{m.src, m.id}
	e := md.entries[k]
	if e != nil && e.m != m {
		// a different message with the same (source, 8-bit id) is pending: indistinguishable by design
		md.evCollision++
		return
	}
	md.padSeed++
	frame := v14EncodeRaw(0x80, m.id, j, len(m.chunks), padLen, v14Bytes(padLen, md.padSeed), m.chunks[j])
	if md.full {
		for kk, oe := range md.entries {
			if kk != k {
				oe.foreign = true
			}
		}
	}
	now := time.Now()
	out := md.feed(m.src, frame)
	m.deliv[j]++
	md.log("s%d:m%d#%d.%d/%d", m.src, m.seq, m.id, j, len(m.chunks))
	if md.fail != "" {
		return
	}
	has := v14TableHas(md.g, md.addrStr[m.src], m.id)
	switch {
	case e == nil:
		if out != nil {
			md.failf("a first chunk (message #%d, %d chunks) made ReadFrom return %s", m.seq, len(m.chunks), md.describe(out, all))
			return
		}
		if m.returns > 0 {
			md.evLateDup++
		}
		if md.cnt[m.src] >= v14PerSourceCap {
			// cap reached: which message loses is the implementation's policy; follow its table, bounds are checked below
			md.evCap++
			md.capped[m.src] = true
			md.log("[cap s%d]", m.src)
			md.resyncSource(m.src)
			if has {
				md.addEntry(k, &v14Entry{m: m, got: 1 << j, n: 1, first: now, order: []int{j}})
			}
			return
		}
		if len(md.entries) >= v14GlobalCap {
			// global cap reached: exactly one older message must make room, and it must be (one of) the oldest
			md.evEvict++
			if !has {
				md.failf("the first chunk of a new message from a source with %d pending was not stored", md.cnt[m.src])
				return
			}
			oldest := md.oldest()
			var victims []v14Key
			for kk := range md.entries {
				if !v14TableHas(md.g, md.addrStr[kk.src], kk.id) {
					victims = append(victims, kk)
				}
			}
			if len(victims) != 1 {
				md.failf("storing a new message at %d pending removed %d older messages, want exactly 1 (table now %d)", len(md.entries), len(victims), v14TableLen(md.g))
				return
			}
			ve := md.entries[victims[0]]
			if ve.first.UnixNano() != oldest {
				md.failf("evicted message #%d (s%d id %d) that arrived %v after the oldest pending message; the oldest must go first", ve.m.seq, victims[0].src, victims[0].id, time.Duration(ve.first.UnixNano()-oldest))
				return
			}
			if ve.m.tracked {
				md.log("[evicted m%d]", ve.m.seq)
			}
			md.delEntry(victims[0])
			md.addEntry(k, &v14Entry{m: m, got: 1 << j, n: 1, first: now, order: []int{j}})
			return
		}
		if !has {
			md.failf("chunk %d of new message #%d (s%d id %d) was not stored although the source has %d (<8) and the table %d (<4096) pending", j, m.seq, m.src, m.id, md.cnt[m.src], len(md.entries))
			return
		}
		md.addEntry(k, &v14Entry{m: m, got: 1 << j, n: 1, first: now, order: []int{j}})
	case e.tainted:
		// only safety from here on: nothing but the exact message may come out, the table stays consistent (checked by the caller)
		if out != nil {
			if !bytes.Equal(out.data, m.full) || out.addr != md.addrStr[m.src] {
				md.failf("message #%d (s%d id %d), whose entry had been hit by a frame with another chunk count, was returned as %s", m.seq, m.src, m.id, md.describe(out, all))
				return
			}
			m.returns++
			md.evComplete++
			md.delEntry(k)
			md.log("=>m%d", m.seq)
			return
		}
		if e.got&(1<<j) == 0 {
			e.got |= 1 << j
			e.n++
		}
		if !has {
			md.delEntry(k)
		}
	case e.got&(1<<j) != 0:
		md.evDup++
		if out != nil {
			md.failf("a duplicate of chunk %d of message #%d made ReadFrom return %s", j, m.seq, md.describe(out, all))
			return
		}
		if !has {
			md.failf("a duplicate of chunk %d made the pending message #%d disappear", j, m.seq)
		}
	default:
		e.got |= 1 << j
		e.n++
		e.order = append(e.order, j)
		if e.n < len(m.chunks) {
			if out != nil {
				md.failf("message #%d returned after only %d of %d chunks: %s", m.seq, e.n, len(m.chunks), md.describe(out, all))
				return
			}
			if !has {
				md.failf("pending message #%d disappeared while its chunk %d was delivered (age %v)", m.seq, j, now.Sub(e.first))
			}
			return
		}
		// last missing chunk
		if out == nil {
			md.failf("all %d chunks of message #%d (s%d id %d, %d bytes, order %v) arrived within %v and within the caps, but it was not returned", len(m.chunks), m.seq, m.src, m.id, len(m.full), e.order, now.Sub(e.first))
			return
		}
		if !bytes.Equal(out.data, m.full) || out.addr != md.addrStr[m.src] {
			md.failf("message #%d (s%d=%s id %d, %d bytes, order %v) was returned as %s", m.seq, m.src, md.addrStr[m.src], m.id, len(m.full), e.order, md.describe(out, all))
			return
		}
		m.returns++
		md.evComplete++
		if len(m.chunks) >= 3 && e.foreign && !sort.IntsAreSorted(e.order) {
			md.evNTOrder++
		}
		md.delEntry(k)
		md.log("=>m%d", m.seq)
	}
}

// conflict sends a frame for the pending entry k that announces another chunk count (a wrapped id, or an
// attacker). The statement does not say what happens to the pending message, so the model follows the
// table for that; no packet may come out of it, and the caller checks the invariants (caps, perSource == census, key set).
func (md *v14Model) conflict(k v14Key, total, idx int, body []byte, all []*v14Msg) {
	e := md.entries[k]
	if e == nil {
		return
	}
	if total == len(e.m.chunks) {
		total = 2 + (total-1)%7 // another value in 2..8
	}
	out := md.feed(k.src, v14EncodeRaw(0x80, k.id, idx, total, 0, nil, body))
	md.evConflict++
	md.log("s%d:conflict(m%d#%d as %d/%d)", k.src, e.m.seq, k.id, idx, total)
	if md.fail != "" {
		return
	}
	if out != nil {
		md.failf("a frame announcing %d chunks (index %d) for the pending %d-chunk message #%d made ReadFrom return %s", total, idx, len(e.m.chunks), e.m.seq, md.describe(out, all))
		return
	}
	if idx < total {
		e.tainted = true
	}
	if !v14TableHas(md.g, md.addrStr[k.src], k.id) {
		if idx >= total {
			md.failf("an ill-formed frame (index %d >= count %d) removed the pending message #%d", idx, total, e.m.seq)
			return
		}
		md.delEntry(k)
	}
}

// resyncSource adopts the implementation's choice of which messages of a capped source stay pending.
func (md *v14Model) resyncSource(src int) {
	for kk := range md.entries {
		if kk.src == src && !v14TableHas(md.g, md.addrStr[src], kk.id) {
			md.delEntry(kk)
		}
	}
}

// advance moves virtual time and reconciles expiry: gone before the TTL is a
// violation, still there after TTL + GC period is a violation, in between the
// model follows the table.
func (md *v14Model) advance(d time.Duration) {
	time.Sleep(d)
	synctest.Wait()
	md.log("+%v", d)
	now := time.Now()
	for kk, e := range md.entries {
		age := now.Sub(e.first)
		has := v14TableHas(md.g, md.addrStr[kk.src], kk.id)
		switch {
		case !has && age <= v14TTL:
			md.failf("pending message #%d (s%d id %d, %d/%d chunks) was forgotten after %v, before its TTL of %v", e.m.seq, kk.src, kk.id, e.n, len(e.m.chunks), age, v14TTL)
			return
		case !has:
			md.evExpire++
			md.delEntry(kk)
		case age > v14TTL+v14GCPeriod:
			md.failf("incomplete message #%d (s%d id %d) is still pending %v after its first chunk (TTL %v + sweep period %v)", e.m.seq, kk.src, kk.id, age, v14TTL, v14GCPeriod)
			return
		}
	}
}

// checkQuick: O(1) bounds for the touched source.
func (md *v14Model) checkQuick(src int) {
	if md.fail != "" {
		return
	}
	if n := v14TableLen(md.g); n > v14GlobalCap {
		md.failf("%d messages pending overall (> 4096)", n)
	}
	if n := v14PerSourceOf(md.g, md.addrStr[src]); n > v14PerSourceCap || n != md.cnt[src] {
		if n > v14PerSourceCap {
			md.failf("perSource[%s]=%d (> 8)", md.addrStr[src], n)
		} else {
			md.failf("perSource[%s]=%d but %d messages of that source are pending (counter drifted)", md.addrStr[src], n, md.cnt[src])
		}
	}
	if n := v14TableLen(md.g); md.fail == "" && n != len(md.entries) {
		md.failf("table holds %d messages, the model %d", n, len(md.entries))
	}
}

// checkFull: bounds, perSource == census of the table, table == model.
func (md *v14Model) checkFull() {
	if md.fail != "" {
		return
	}
	keys, per := v14Snapshot(md.g)
	if len(keys) > v14GlobalCap {
		md.failf("%d messages pending overall (> 4096)", len(keys))
		return
	}
	census := map[string]int{}
	for k := range keys {
		census[k.addr]++
	}
	for a, n := range census {
		if n > v14PerSourceCap {
			md.failf("%d messages pending for source %s (> 8)", n, a)
			return
		}
		if per[a] != n {
			md.failf("perSource[%s]=%d but the table holds %d messages of that source (counter drifted)", a, per[a], n)
			return
		}
	}
	for a, n := range per {
		if census[a] != n {
			md.failf("perSource[%s]=%d but the table holds %d messages of that source (counter drifted)", a, n, census[a])
			return
		}
	}
	for k := range keys {
		s, ok := md.srcOf[k.addr]
		if !ok || md.entries[v14Key{s, k.id}] == nil {
			md.failf("the table holds an entry (%s, id %d) that no delivered well-formed chunk accounts for", k.addr, k.id)
			return
		}
	}
	for kk, e := range md.entries {
		if !keys[v14AddrID{md.addrStr[kk.src], kk.id}] {
			md.failf("pending message #%d (s%d id %d, %d/%d chunks, age %v) vanished from the table without completion, TTL or cap pressure", e.m.seq, kk.src, kk.id, e.n, len(e.m.chunks), time.Since(e.first))
			return
		}
	}
}

func (md *v14Model) check(src int) {
	if md.full {
		md.checkFull()
	} else {
		md.checkQuick(src)
	}
}

// expectNothing feeds a datagram that must not produce a packet (ill-formed frame).
func (md *v14Model) expectNothing(src int, frame []byte, what string, all []*v14Msg) {
	out := md.feed(src, frame)
	md.evIll++
	md.log("s%d:ill(%s)", src, what)
	if out != nil && md.fail == "" {
		md.failf("an ill-formed frame (%s, %x) made ReadFrom return %s", what, frame[:v14MinInt(len(frame), 8)], md.describe(out, all))
	}
}

func (md *v14Model) short(src int, p []byte, all []*v14Msg) {
	out := md.feed(src, p)
	md.evShort++
	md.log("s%d:short(%d)", src, len(p))
	if md.fail != "" {
		return
	}
	if out == nil {
		md.failf("short-header packet of %d bytes from s%d was not passed through", len(p), src)
		return
	}
	if !bytes.Equal(out.data, p) || out.addr != md.addrStr[src] {
		md.failf("short-header packet of %d bytes from %s came out as %d bytes %x… from %s", len(p), md.addrStr[src], len(out.data), out.data[:v14MinInt(len(out.data), 12)], out.addr)
	}
}

// v14Cut splits full at the given cut points (sorted, within [0,len]) into k chunks.
func v14Cut(full []byte, cuts []int) [][]byte {
	out := make([][]byte, 0, len(cuts)+1)
	prev := 0
	for _, c := range cuts {
		out = append(out, full[prev:c])
		prev = c
	}
	return append(out, full[prev:])
}

// v14MakeMsg builds a long-header message of n bytes cut into k chunks. mode 0: the
// equal split with the remainder in the last chunk; otherwise cut points derived from seed
// ("randomly-sized chunks"), empty chunks included.
func v14MakeMsg(seq, src int, id uint8, n, k int, seed uint32, mode int) *v14Msg {
	full := v14Bytes(n, seed)
	full[0] |= 0x80
	cuts := make([]int, k-1)
	if mode == 0 {
		for i := range cuts {
			cuts[i] = (i + 1) * (n / k)
		}
	} else {
		r := v14Bytes(4*(k-1), seed^0x5bd1e995)
		for i := range cuts {
			cuts[i] = int(binary.BigEndian.Uint32(r[4*i:])) % (n + 1)
		}
		sort.Ints(cuts)
	}
	return &v14Msg{seq: seq, src: src, id: id, chunks: v14Cut(full, cuts), full: full, deliv: make([]int, k)}
}

// v14Perm: the d-th permutation (Lehmer code) of 0..n-1 — a pure function of the drawn d.
func v14Perm(n int, d uint64) []int {
	items := make([]int, n)
	for i := range items {
		items[i] = i
	}
	out := make([]int, 0, n)
	for i := n; i > 0; i-- {
		j := int(d % uint64(i))
		d /= uint64(i)
		out = append(out, items[j])
		items = append(items[:j], items[j+1:]...)
	}
	return out
}

// ------------------------------------------------------------------ receive state machine (few sources, every interleaving)

type v14Op struct {
	kind          int
	a, b, c, n, k int
	seed          uint32
	perm          uint64
}

const (
	v14OpNew = iota
	v14OpDeliver
	v14OpDup
	v14OpComplete
	v14OpIll
	v14OpShort
	v14OpAdvance
	v14OpFlood
	v14OpConflict
)

var v14OpNames = []string{"new", "deliver", "dup", "complete", "ill", "short", "advance", "flood", "xconflict"}

var v14Advances = []time.Duration{time.Millisecond, time.Second, 3999 * time.Millisecond, 4 * time.Second, 4001 * time.Millisecond, 7999 * time.Millisecond, 8 * time.Second, 8001 * time.Millisecond, 11999 * time.Millisecond, 12 * time.Second, 12001 * time.Millisecond, 20 * time.Second}

func v14GenOp(t *rapid.T) v14Op {
	kind := rapid.SampledFrom([]int{v14OpNew, v14OpNew, v14OpNew, v14OpDeliver, v14OpDeliver, v14OpDeliver, v14OpDeliver, v14OpDeliver, v14OpDeliver, v14OpDeliver, v14OpDup, v14OpDup, v14OpComplete, v14OpComplete, v14OpIll, v14OpIll, v14OpShort, v14OpAdvance, v14OpAdvance, v14OpFlood, v14OpConflict, v14OpConflict}).Draw(t, "op")
	op := v14Op{kind: kind}
	small := rapid.IntRange(0, 1<<16)
	switch kind {
	case v14OpNew:
		op.a, op.b, op.c = small.Draw(t, "src"), small.Draw(t, "id"), small.Draw(t, "firstChunk")
		op.k = rapid.IntRange(2, 8).Draw(t, "chunks")
		op.n = rapid.OneOf(rapid.IntRange(1, 12), rapid.IntRange(1, 80), rapid.SampledFrom([]int{1, 2, 7, 8, 9, 1200, 1500})).Draw(t, "len")
		op.seed = rapid.Uint32().Draw(t, "seed")
	case v14OpDeliver, v14OpDup:
		op.a, op.b, op.c = small.Draw(t, "msg"), small.Draw(t, "chunk"), rapid.IntRange(0, 40).Draw(t, "pad")
	case v14OpComplete:
		op.a, op.perm = small.Draw(t, "msg"), rapid.Uint64().Draw(t, "perm")
	case v14OpIll:
		op.a, op.b, op.c = small.Draw(t, "src"), rapid.IntRange(0, 6).Draw(t, "illKind"), small.Draw(t, "x")
	case v14OpShort:
		op.a = small.Draw(t, "src")
		op.n = rapid.OneOf(rapid.IntRange(1, 40), rapid.SampledFrom([]int{1, 4, 5, 1200, 1500})).Draw(t, "len")
		op.seed = rapid.Uint32().Draw(t, "seed")
	case v14OpAdvance:
		op.a = rapid.IntRange(0, len(v14Advances)-1).Draw(t, "dur")
	case v14OpFlood:
		op.a, op.n, op.b = small.Draw(t, "src"), rapid.IntRange(1, 12).Draw(t, "count"), small.Draw(t, "idFrom")
	case v14OpConflict:
		// same source and id as a pending message, another chunk count (larger or smaller), index inside / outside either count
		op.a, op.k, op.c, op.n = small.Draw(t, "pending"), rapid.IntRange(2, 8).Draw(t, "otherCount"), rapid.IntRange(0, 15).Draw(t, "index"), rapid.IntRange(0, 30).Draw(t, "len")
		op.seed = rapid.Uint32().Draw(t, "seed")
	}
	return op
}

type v14RecvCase struct {
	nsrc int
	pool []uint8
	ops  []v14Op
}

// v14RunRecv interprets the drawn operations against implementation and model inside the bubble.
func v14RunRecv(c v14RecvCase) (md *v14Model, all []*v14Msg) {
	md = v14NewModel(c.nsrc, true)
	md.g = newGeckoPacketConn(md.fake, 512, 1200)
	defer md.g.Close()
	var live []*v14Msg // never returned so far
	pickLive := func(x int) *v14Msg {
		var l []*v14Msg
		for _, m := range live {
			if m.returns == 0 {
				l = append(l, m)
			}
		}
		live = l
		if len(l) == 0 {
			return nil
		}
		if x%4 != 0 && len(l) > 3 {
			return l[x%3] // mostly work on the oldest unfinished messages so that interleaved completions happen
		}
		return l[x%len(l)]
	}
	missing := func(m *v14Msg) []int {
		e := md.entries[v14Key{m.src, m.id}]
		var r []int
		for j := range m.chunks {
			if e == nil || e.m != m || e.got&(1<<j) == 0 {
				r = append(r, j)
			}
		}
		return r
	}
	freeID := func(src int, from int, pool []uint8) (uint8, bool) {
		for i := 0; i < len(pool); i++ {
			id := pool[(from+i)%len(pool)]
			if md.entries[v14Key{src, id}] == nil {
				if i > 0 {
					md.evCollision++ // the drawn id was taken by a pending message: excluded by construction
				}
				return id, true
			}
		}
		md.evCollision++
		return 0, false
	}
	used := map[v14Key]bool{}
	newMsg := func(src int, id uint8, n, k int, seed uint32) *v14Msg {
		m := v14MakeMsg(len(all), src, id, n, k, seed, int(seed%3))
		if used[v14Key{src, id}] {
			md.evReuse++
		}
		used[v14Key{src, id}] = true
		all = append(all, m)
		return m
	}
	all256 := make([]uint8, 256)
	for i := range all256 {
		all256[i] = uint8(i)
	}
	for _, op := range c.ops {
		if md.fail != "" {
			break
		}
		src := op.a % c.nsrc
		switch op.kind {
		case v14OpNew:
			id, ok := freeID(src, op.b, c.pool)
			if !ok {
				continue
			}
			m := newMsg(src, id, op.n, op.k, op.seed)
			live = append(live, m)
			md.deliver(m, op.c%op.k, int(op.seed%23), all)
		case v14OpDeliver:
			m := pickLive(op.a)
			if m == nil {
				continue
			}
			miss := missing(m)
			md.deliver(m, miss[op.b%len(miss)], op.c, all)
		case v14OpDup:
			if len(all) == 0 {
				continue
			}
			m := all[op.a%len(all)]
			md.deliver(m, op.b%len(m.chunks), op.c, all)
		case v14OpComplete:
			m := pickLive(op.a)
			if m == nil {
				continue
			}
			miss := missing(m)
			for _, i := range v14Perm(len(miss), op.perm) {
				if md.fail != "" {
					break
				}
				md.deliver(m, miss[i], int(op.perm>>40)%50, all)
				md.check(m.src)
			}
		case v14OpIll:
			id := c.pool[op.c%len(c.pool)]
			var fr []byte
			what := ""
			body := v14Bytes(1+op.c%20, uint32(op.c))
			switch op.b {
			case 0:
				what = "count<2"
				fr = v14EncodeRaw(0x80, id, 0, op.c%2, 0, nil, body)
			case 1:
				what = "count>8"
				fr = v14EncodeRaw(0x80, id, op.c%8, 9+op.c%7, 0, nil, body)
			case 2:
				what = "index>=count"
				tot := 2 + op.c%7
				fr = v14EncodeRaw(0x80, id, tot+op.c%(16-tot), tot, 0, nil, body)
			case 3:
				what = "padLen past the end"
				fr = v14EncodeRaw(0x80, id, 0, 2+op.c%7, len(body)+1+op.c%3000, nil, body)
			case 4:
				what = "truncated header"
				fr = v14EncodeRaw(0x80, id, 0, 2, 0, nil, nil)[:1+op.c%4]
			case 5:
				what = "empty datagram"
				fr = []byte{}
			default:
				what = "reserved bits set, count 0"
				fr = v14EncodeRaw(0x80|byte(op.c%128), id, 1, 0, 0, nil, body)
			}
			md.expectNothing(src, fr, what, all)
		case v14OpShort:
			p := v14Bytes(op.n, op.seed)
			p[0] &= 0x7f
			md.short(src, p, all)
		case v14OpAdvance:
			md.advance(v14Advances[op.a])
		case v14OpConflict:
			var pend []v14Key // pending entries in creation order of their messages (deterministic)
			for _, m := range all {
				if e := md.entries[v14Key{m.src, m.id}]; e != nil && e.m == m {
					pend = append(pend, v14Key{m.src, m.id})
				}
			}
			if len(pend) == 0 {
				continue
			}
			k := pend[op.a%len(pend)]
			src = k.src
			md.conflict(k, op.k, op.c, v14Bytes(op.n, op.seed), all)
		case v14OpFlood:
			for i := 0; i < op.n && md.fail == ""; i++ {
				id, ok := freeID(src, op.b+i, all256)
				if !ok {
					break
				}
				m := newMsg(src, id, 3+i, 2+(op.b+i)%7, uint32(op.b*31+i))
				if i == 0 {
					live = append(live, m)
				}
				md.deliver(m, (op.b+i)%len(m.chunks), i%9, all)
				md.check(src)
			}
		}
		md.check(src)
	}
	md.snap()
	if md.fail != "" {
		return
	}
	// the final obligations: after > TTL + sweep period nothing older remains, and no source is locked out
	md.advance(v14TTL + v14GCPeriod + time.Millisecond)
	if md.fail != "" {
		return
	}
	md.checkFull()
	if n := v14TableLen(md.g); md.fail == "" && (n != 0 || len(md.entries) != 0) {
		md.failf("%d messages still pending %v after the last chunk", n, v14TTL+v14GCPeriod+time.Millisecond)
	}
	for s := 0; s < c.nsrc && md.fail == ""; s++ {
		m := newMsg(s, uint8(200+s), 40+s, 2+s%7, uint32(9000+s))
		for _, j := range v14Perm(len(m.chunks), uint64(s)*7+3) {
			md.deliver(m, j, 3, all)
		}
		if md.fail == "" && m.returns != 1 {
			md.failf("after everything expired, source s%d (capped before: %v) could not get a fresh message through", s, md.capped[s])
		}
		md.checkFull()
	}
	return
}

func TestVerifC14_Receive(t *testing.T) {
	st := newVStats("TestVerifC14_Receive")
	defer st.Flush()
	rapid.Check(t, func(rt *rapid.T) {
		var c v14RecvCase
		c.nsrc = rapid.IntRange(1, 6).Draw(rt, "sources")
		c.pool = rapid.SliceOfNDistinct(rapid.OneOf(rapid.SampledFrom([]uint8{0, 1, 127, 128, 254, 255}), rapid.Uint8()), 1, 10, rapid.ID[uint8]).Draw(rt, "idPool")
		nops := rapid.OneOf(rapid.IntRange(1, 30), rapid.IntRange(20, 90)).Draw(rt, "nops")
		c.ops = rapid.SliceOfN(rapid.Custom(v14GenOp), nops, nops).Draw(rt, "ops")
		var md *v14Model
		synctest.Test(t, func(*testing.T) {
			md, _ = v14RunRecv(c)
		})
		var kinds []string
		for _, op := range c.ops {
			kinds = append(kinds, v14OpNames[op.kind][:2])
		}
		var cl []string
		add := func(n int, s string) {
			if n > 0 {
				cl = append(cl, s)
			}
		}
		add(md.mainCap, "per-source-cap-hit")
		add(md.mainExpire, "expired")
		add(md.mainComplete, "completed")
		add(md.evNTOrder, "completed:>=3chunks,non-identity,interleaved")
		add(md.evDup, "duplicate-in-pending")
		add(md.evLateDup, "late-chunk-after-completion")
		add(md.evIll, "ill-formed")
		add(md.evShort, "short-header")
		add(md.evReuse, "id-reused")
		add(md.evConflict, "conflicting-chunk-count")
		switch {
		case md.steps <= 20:
			cl = append(cl, "frames<=20")
		case md.steps <= 60:
			cl = append(cl, "frames21..60")
		default:
			cl = append(cl, "frames>60")
		}
		for i := 0; i < md.evCollision; i++ {
			st.Excluded("id collision with a concurrently pending message of the same source (indistinguishable by design)")
		}
		nt := md.evNTOrder > 0 || md.mainCap > 0 || md.mainExpire > 0
		st.Case(nt, strings.Join(md.trace, ","), cl, func() string {
			return fmt.Sprintf("sources=%d idPool=%v: %s", c.nsrc, c.pool, md.history())
		})
		if md.fail != "" {
			rt.Fatalf("C14 receive: %s\n  sources=%d idPool=%v ops=%v\n  history: %s", md.fail, c.nsrc, c.pool, strings.Join(kinds, ","), md.history())
		}
	})
}

// ------------------------------------------------------------------ global cap: thousands of pending messages from hundreds of sources

func TestVerifC14_GlobalCap(t *testing.T) {
	st := newVStats("TestVerifC14_GlobalCap")
	defer st.Flush()
	rapid.Check(t, func(rt *rapid.T) {
		nsrc := rapid.IntRange(513, 640).Draw(rt, "sources")
		perSrc := rapid.SampledFrom([]int{8, 8, 8, 7, 9, 12}).Draw(rt, "perSource") // > 8 also pushes on the per-source cap
		phases := rapid.IntRange(1, 4).Draw(rt, "phases")
		gaps := make([]int, phases)
		for i := range gaps {
			gaps[i] = rapid.SampledFrom([]int{0, 1, 500, 1000, 2500, 3999, 4000, 4001}).Draw(rt, "gapMs")
		}
		target := rapid.SampledFrom([]int{4000, 4088, 4094, 4095, 4096, 4096, 4096}).Draw(rt, "fill")
		nTracked := rapid.IntRange(1, 4).Draw(rt, "tracked")
		type trk struct {
			phase, k, n int
			seed        uint32
			perm        uint64
		}
		trs := make([]trk, nTracked)
		for i := range trs {
			trs[i] = trk{rapid.IntRange(0, phases).Draw(rt, "atPhase"), rapid.IntRange(2, 8).Draw(rt, "chunks"), rapid.IntRange(1, 1500).Draw(rt, "len"), rapid.Uint32().Draw(rt, "seed"), rapid.Uint64().Draw(rt, "perm")}
		}
		overflow := rapid.OneOf(rapid.IntRange(0, 40), rapid.IntRange(0, 700)).Draw(rt, "overflow")
		tailGap := rapid.SampledFrom([]int{0, 1, 1000, 3000}).Draw(rt, "tailGapMs")
		lateSrc := rapid.IntRange(0, nsrc-1).Draw(rt, "lateSrc")
		nConflict := rapid.IntRange(0, 24).Draw(rt, "conflicts")
		conflictSeed := rapid.IntRange(0, 1<<20).Draw(rt, "conflictSeed")

		var md *v14Model
		var trackedMsgs []*v14Msg
		synctest.Test(t, func(*testing.T) {
			md = v14NewModel(nsrc+8, false) // the last 8 sources carry the tracked messages / overflow
			md.traceOff = true
			md.g = newGeckoPacketConn(md.fake, 512, 1200)
			defer md.g.Close()
			var all []*v14Msg
			seq := 0
			nextID := make([]int, nsrc+8)
			first := func(src int) {
				id := uint8(nextID[src])
				nextID[src]++
				m := v14MakeMsg(seq, src, id, 4+seq%9, 2+seq%7, uint32(seq), 1)
				seq++
				md.deliver(m, seq%len(m.chunks), seq%5, nil)
				md.checkQuick(src)
			}
			startTracked := func(ph int) {
				for i, tr := range trs {
					if tr.phase != ph || md.fail != "" {
						continue
					}
					src := nsrc + i
					m := v14MakeMsg(100000+i, src, uint8(7*i), tr.n, tr.k, tr.seed, int(tr.seed%3))
					m.tracked = true
					trackedMsgs = append(trackedMsgs, m)
					all = append(all, m)
					md.traceOff = false
					md.log("[table=%d]", len(md.entries))
					md.deliver(m, v14Perm(tr.k, tr.perm)[0], 9, all)
					md.traceOff = true
					md.checkQuick(src)
				}
			}
			// fill in age classes
			filled := 0
			for ph := 0; ph < phases && md.fail == ""; ph++ {
				startTracked(ph)
				quota := target / phases
				if ph == phases-1 {
					quota = target - filled
				}
				for i := 0; i < quota && md.fail == ""; i++ {
					src := (filled + i) % nsrc
					if nextID[src] >= perSrc {
						// this source has had its share; look for the next one with room
						for d := 1; d < nsrc && nextID[src] >= perSrc; d++ {
							src = (src + 1) % nsrc
						}
						if nextID[src] >= perSrc {
							break
						}
					}
					first(src)
				}
				filled += quota
				md.checkFull()
				if gaps[ph] > 0 && md.fail == "" {
					md.traceOff = false
					md.advance(time.Duration(gaps[ph]) * time.Millisecond)
					md.traceOff = true
				}
			}
			startTracked(phases)
			md.traceOff = false
			md.log("[filled: table=%d]", len(md.entries))
			md.traceOff = true
			// frames that announce another chunk count for pending messages (first id of some sources, tracked ones)
			for i := 0; i < nConflict && md.fail == ""; i++ {
				k := v14Key{(lateSrc + 37*i) % nsrc, 0}
				if i%5 == 4 && len(trackedMsgs) > 0 {
					m := trackedMsgs[i%len(trackedMsgs)]
					k = v14Key{m.src, m.id}
				}
				md.conflict(k, 2+(conflictSeed+i)%7, (conflictSeed>>3+i)%10, v14Bytes(i%9, uint32(conflictSeed+i)), all)
				md.checkQuick(k.src)
			}
			md.checkFull()
			// overflow: new first chunks from sources with room (fresh sources nsrc+4..nsrc+7 and round robin)
			for i := 0; i < overflow && md.fail == ""; i++ {
				src := nsrc + 4 + i%4
				if md.cnt[src] >= v14PerSourceCap || nextID[src] > 250 {
					src = (lateSrc + i) % nsrc
				}
				if nextID[src] > 250 {
					continue
				}
				first(src)
			}
			md.traceOff = false
			md.log("[overflow %d: table=%d evictions=%d]", overflow, len(md.entries), md.evEvict)
			md.checkFull()
			if tailGap > 0 && md.fail == "" {
				md.advance(time.Duration(tailGap) * time.Millisecond)
			}
			// complete the tracked messages (those still pending must come back exactly; evicted ones restart)
			for i, m := range trackedMsgs {
				if md.fail != "" {
					break
				}
				e := md.entries[v14Key{m.src, m.id}]
				for _, j := range v14Perm(len(m.chunks), trs[i].perm) {
					if e != nil && e.got&(1<<j) != 0 {
						continue
					}
					md.deliver(m, j, 5, all)
					md.checkQuick(m.src)
				}
			}
			md.checkFull()
			md.snap()
			if md.fail != "" {
				return
			}
			// forget everything, then a source that sat at its cap must be served again
			md.advance(v14TTL + v14GCPeriod + time.Millisecond)
			md.checkFull()
			if n := v14TableLen(md.g); md.fail == "" && n != 0 {
				md.failf("%d messages still pending after %v of silence", n, v14TTL+v14GCPeriod+time.Millisecond)
			}
			for _, s := range []int{0, lateSrc, nsrc - 1} {
				if md.fail != "" {
					break
				}
				m := v14MakeMsg(200000+s, s, uint8(nextID[s]+3), 33, 2+s%7, uint32(s), 2)
				all = append(all, m)
				for _, j := range v14Perm(len(m.chunks), uint64(s)) {
					md.deliver(m, j, 1, all)
				}
				if md.fail == "" && m.returns != 1 {
					md.failf("after everything expired, source s%d could not get a fresh message through (locked out)", s)
				}
			}
			md.checkFull()
		})
		done := 0
		for _, m := range trackedMsgs {
			done += m.returns
		}
		var cl []string
		md.snap()
		if md.mainEvict > 0 {
			cl = append(cl, "evictions")
		}
		if md.mainCap > 0 {
			cl = append(cl, "per-source-cap-hit")
		}
		if md.mainExpire > 0 {
			cl = append(cl, "expired")
		}
		if done > 0 {
			cl = append(cl, "tracked-completed")
		}
		if done < len(trackedMsgs) {
			cl = append(cl, "tracked-evicted-or-expired")
		}
		st.Case(md.mainEvict > 0 || md.mainCap > 0 || md.mainExpire > 0, fmt.Sprintf("%d/%d/%v/%d/%d/%v/%d", nsrc, perSrc, gaps, target, overflow, trs, tailGap), cl, func() string {
			return fmt.Sprintf("sources=%d perSource=%d fill=%d in %d phases gaps(ms)=%v overflow=%d evictions=%d capHits=%d expired=%d steps=%d tracked=%d completed=%d: %s", nsrc, perSrc, target, phases, gaps, overflow, md.evEvict, md.evCap, md.evExpire, md.steps, len(trackedMsgs), done, md.history())
		})
		if md.fail != "" {
			rt.Fatalf("C14 global cap: %s\n  sources=%d perSource=%d fill=%d phases=%d gaps(ms)=%v overflow=%d tailGap=%dms evictions so far=%d steps=%d\n  history: %s", md.fail, nsrc, perSrc, target, phases, gaps, overflow, tailGap, md.evEvict, md.steps, md.history())
		}
	})
}

// ------------------------------------------------------------------ real sender -> any arrival order -> real receiver

func TestVerifC14_RoundTrip(t *testing.T) {
	st := newVStats("TestVerifC14_RoundTrip")
	defer st.Flush()
	rapid.Check(t, func(rt *rapid.T) {
		key := v14Bytes(rapid.IntRange(4, 24).Draw(rt, "pwLen"), rapid.Uint32().Draw(rt, "pwSeed"))
		nS := rapid.IntRange(1, 3).Draw(rt, "senders")
		type wr struct {
			n    int
			long bool
			seed uint32
		}
		writes := make([][]wr, nS)
		cfgs := make([]v14Cfg, nS)
		for s := range writes {
			nm := rapid.IntRange(1, 5).Draw(rt, "msgs")
			for i := 0; i < nm; i++ {
				writes[s] = append(writes[s], wr{v14GenPktLen(rt), rapid.IntRange(0, 5).Draw(rt, "short") != 0, rapid.Uint32().Draw(rt, "seed")})
			}
			cfgs[s] = v14GenCfg(rt, writes[s][0].n)
		}
		ndup := rapid.IntRange(0, 3).Draw(rt, "dups") // per sender, so pending + stale stays <= 8 per source
		dupPick := rapid.SliceOfN(rapid.IntRange(0, 1<<20), 3*nS, 3*nS).Draw(rt, "dupPick")
		shuffle := rapid.SliceOfN(rapid.IntRange(0, 1<<20), 200, 200).Draw(rt, "shuffle")
		udpS, udpR := rapid.Bool().Draw(rt, "udpLikeSenders"), rapid.Bool().Draw(rt, "udpLikeReceiver")
		mode := rapid.SampledFrom([]int{0, 0, 0, 0, 1, 2}).Draw(rt, "order") // 0 any permutation, 1 reversed, 2 as sent

		type dg struct {
			data    []byte
			src     net.Addr
			s, m, j int
		}
		var fail, desc string
		nt := false
		var chunkHist []int
		synctest.Test(t, func(*testing.T) {
			recvFake := &v14Fake{local: &net.UDPAddr{IP: net.IPv4(10, 14, 9, 9), Port: 443}}
			R, err := WrapPacketConnGecko(v14Inner(recvFake, udpR), GeckoOptions{Password: key})
			if err != nil {
				fail = fmt.Sprintf("receiver refused: %v", err)
				return
			}
			defer R.Close()
			var all []dg
			type sent struct {
				data  []byte
				src   string
				long  bool
				count []int // deliveries per chunk (long) or of the datagram (short)
				got   int
			}
			var msgs []*sent
			for s := 0; s < nS; s++ {
				f := &v14Fake{local: &net.UDPAddr{IP: net.IPv4(10, 14, 1, byte(1+s/2)), Port: 5000 + s%2}}
				G, err := WrapPacketConnGecko(v14Inner(f, udpS), GeckoOptions{Password: key, MinPacketSize: cfgs[s].min, MaxPacketSize: cfgs[s].max})
				if err != nil {
					fail = fmt.Sprintf("sender options %+v refused: %v", cfgs[s], err)
					return
				}
				defer G.Close()
				var mine []dg
				for _, w := range writes[s] {
					p := v14Bytes(w.n, w.seed)
					if w.long {
						p[0] |= 0x80
					} else {
						p[0] &= 0x7f
					}
					if _, err := G.WriteTo(append([]byte(nil), p...), recvFake.local); err != nil {
						fail = fmt.Sprintf("WriteTo(%d bytes) failed: %v", w.n, err)
						return
					}
					ds := f.take()
					mi := len(msgs)
					msgs = append(msgs, &sent{data: p, src: f.local.String(), long: w.long, count: make([]int, len(ds))})
					if w.long {
						chunkHist = append(chunkHist, len(ds))
					}
					for j, d := range ds {
						mine = append(mine, dg{d.data, f.local, s, mi, j})
					}
				}
				for i := 0; i < ndup && len(mine) > 0; i++ {
					mine = append(mine, mine[dupPick[3*s+i]%len(mine)])
				}
				all = append(all, mine...)
			}
			switch mode {
			case 0:
				for i := len(all) - 1; i > 0; i-- {
					j := shuffle[i%len(shuffle)] % (i + 1)
					all[i], all[j] = all[j], all[i]
				}
			case 1:
				for i, j := 0, len(all)-1; i < j; i, j = i+1, j-1 {
					all[i], all[j] = all[j], all[i]
				}
			}
			var order []string
			for _, d := range all {
				recvFake.push(d.data, d.src)
				msgs[d.m].count[d.j]++
				order = append(order, fmt.Sprintf("s%d.m%d.%d", d.s, d.m, d.j))
			}
			desc = fmt.Sprintf("senders=%d (udp-like inner: senders %v, receiver %v) cfgs=%v chunk counts=%v arrival=%v", nS, udpS, udpR, cfgs, chunkHist, order)
			nt = nS >= 2 && mode == 0 && len(chunkHist) >= 2
			buf := make([]byte, 2048)
			for guard := 0; guard < 10000; guard++ {
				n, addr, err := R.ReadFrom(buf)
				if err != nil {
					if !errors.Is(err, errV14Empty) {
						fail = fmt.Sprintf("ReadFrom: unexpected error %v", err)
						return
					}
					break
				}
				a := "<nil>"
				if addr != nil {
					a = addr.String()
				}
				var best *sent
				for _, m := range msgs {
					// packets with identical content from the same source are one equivalence class: credit its first member
					if m.src == a && bytes.Equal(m.data, buf[:n]) {
						best = m
						break
					}
				}
				if best != nil {
					best.got++
				} else {
					fail = fmt.Sprintf("receiver returned %d bytes %x… from %s which no sender wrote as one packet from that address", n, buf[:v14MinInt(n, 16)], a)
					return
				}
			}
			// per class of identical (source, bytes): at least once per written packet, at most as often as
			// complete sets of its datagrams arrived
			for i, m := range msgs {
				lo, hi, first := 0, 0, true
				for k, o := range msgs {
					if o.src != m.src || !bytes.Equal(o.data, m.data) {
						continue
					}
					if k < i {
						first = false
						break
					}
					minc := o.count[0]
					for _, c := range o.count {
						if c < minc {
							minc = c
						}
					}
					lo++
					hi += minc
				}
				if !first {
					continue
				}
				if m.got < lo {
					fail = fmt.Sprintf("packet #%d (%d bytes, long=%v, %d datagrams, from %s) was written %d times but delivered only %d times", i, len(m.data), m.long, len(m.count), m.src, lo, m.got)
					return
				}
				if m.got > hi {
					fail = fmt.Sprintf("packet #%d (%d bytes, long=%v) was delivered %d times although complete sets of its datagrams arrived only %d times", i, len(m.data), m.long, m.got, hi)
					return
				}
			}
		})
		st.Case(nt, desc, []string{fmt.Sprintf("senders=%d", nS), fmt.Sprintf("order=%d", mode)}, func() string { return desc })
		if fail != "" {
			rt.Fatalf("C14 round trip: %s\n  %s", fail, desc)
		}
	})
}

// ------------------------------------------------------------------ sender's 8-bit message id wraps: more than 256 messages on one connection

func TestVerifC14_IDWrap(t *testing.T) {
	st := newVStats("TestVerifC14_IDWrap")
	defer st.Flush()
	rapid.Check(t, func(rt *rapid.T) {
		key := v14Bytes(8, rapid.Uint32().Draw(rt, "pwSeed"))
		n := rapid.IntRange(257, 700).Draw(rt, "writes")
		lens := rapid.SliceOfN(rapid.IntRange(1, 60), n, n).Draw(rt, "lens")
		drop := rapid.SliceOfN(rapid.IntRange(0, 24), n, n).Draw(rt, "drop") // 0: lose one chunk of this message
		perms := rapid.SliceOfN(rapid.Uint64(), n, n).Draw(rt, "perms")
		seed := rapid.Uint32().Draw(rt, "seed")
		var fail string
		excluded, incomplete, wraps := 0, 0, 0
		synctest.Test(t, func(*testing.T) {
			rf := &v14Fake{local: &net.UDPAddr{IP: net.IPv4(10, 14, 9, 9), Port: 443}}
			sf := &v14Fake{local: &net.UDPAddr{IP: net.IPv4(10, 14, 1, 1), Port: 5000}}
			R, err := WrapPacketConnGecko(v14Inner(rf, seed&1 == 1), GeckoOptions{Password: key})
			if err != nil {
				fail = err.Error()
				return
			}
			defer R.Close()
			S, err := WrapPacketConnGecko(v14Inner(sf, seed&2 == 2), GeckoOptions{Password: key, MinPacketSize: 20, MaxPacketSize: 90})
			if err != nil {
				fail = err.Error()
				return
			}
			defer S.Close()
			stale := map[uint8]bool{} // ids of messages left incomplete and not yet expired
			buf := make([]byte, 2048)
			lastID := -1
			for w := 0; w < n && fail == ""; w++ {
				p := v14Bytes(lens[w], seed+uint32(w))
				p[0] |= 0x80
				if _, err := S.WriteTo(append([]byte(nil), p...), rf.local); err != nil {
					fail = fmt.Sprintf("write #%d failed: %v", w, err)
					return
				}
				ds := sf.take()
				if len(ds) < 2 {
					fail = fmt.Sprintf("write #%d produced %d datagrams", w, len(ds))
					return
				}
				inner, ok := v14Unsalamander(key, ds[0].data)
				if !ok {
					fail = fmt.Sprintf("write #%d: datagram too short", w)
					return
				}
				f, derr := v14DecodeFrame(inner)
				if derr != nil {
					fail = fmt.Sprintf("write #%d: %v", w, derr)
					return
				}
				if int(f.id) < lastID {
					wraps++
				}
				lastID = int(f.id)
				if stale[f.id] {
					excluded++ // an incomplete older message with the same id is still pending: indistinguishable by design
					continue
				}
				order := v14Perm(len(ds), perms[w])
				if drop[w] == 0 {
					order = order[1:]
					stale[f.id] = true
					incomplete++
				}
				for _, i := range order {
					rf.push(ds[i].data, sf.local)
				}
				var got [][]byte
				for {
					nn, addr, err := R.ReadFrom(buf)
					if err != nil {
						break
					}
					if addr == nil || addr.String() != sf.local.String() {
						fail = fmt.Sprintf("write #%d (id %d): returned with source %v", w, f.id, addr)
						return
					}
					got = append(got, append([]byte(nil), buf[:nn]...))
				}
				if drop[w] == 0 {
					if len(got) != 0 {
						fail = fmt.Sprintf("write #%d (id %d, %d chunks, one withheld): receiver returned %d packets, first %x", w, f.id, len(ds), len(got), got[0])
					}
				} else if len(got) != 1 || !bytes.Equal(got[0], p) {
					fail = fmt.Sprintf("write #%d (id %d, %d bytes in %d chunks, order %v, %d incomplete ids pending %v): receiver returned %d packets %x, want exactly the packet %x", w, f.id, len(p), len(ds), order, len(stale), v14IDs(stale), len(got), got, p)
				}
				if len(stale) >= 6 {
					time.Sleep(v14TTL + v14GCPeriod + time.Millisecond)
					synctest.Wait()
					stale = map[uint8]bool{}
				}
			}
		})
		for i := 0; i < excluded; i++ {
			st.Excluded("id collision with an incomplete pending message of the same source (indistinguishable by design)")
		}
		st.Case(wraps > 0, fmt.Sprintf("%d/%d/%d", n, seed, incomplete), []string{fmt.Sprintf("wraps=%d", wraps)}, func() string {
			return fmt.Sprintf("%d long-header writes on one connection, id wrapped %d times, %d left incomplete, %d excluded", n, wraps, incomplete, excluded)
		})
		if fail != "" {
			rt.Fatalf("C14 id wrap: %s", fail)
		}
	})
}

func v14IDs(m map[uint8]bool) []int {
	var r []int
	for k := range m {
		r = append(r, int(k))
	}
	sort.Ints(r)
	return r
}

// ------------------------------------------------------------------ schedules: concurrent writers (and readers) on one Gecko socket pair (race detector on)

// v14ChanConn: WriteTo hands the datagram to the peer's channel, ReadFrom blocks on its own channel until it is closed.
type v14ChanConn struct {
	local net.Addr
	in    chan v14Pkt
	peer  *v14ChanConn
}

func (c *v14ChanConn) ReadFrom(p []byte) (int, net.Addr, error) {
	pk, ok := <-c.in
	if !ok {
		return 0, nil, net.ErrClosed
	}
	return copy(p, pk.data), pk.addr, nil
}

func (c *v14ChanConn) WriteTo(p []byte, _ net.Addr) (int, error) {
	c.peer.in <- v14Pkt{append([]byte(nil), p...), c.local}
	return len(p), nil
}

func (c *v14ChanConn) Close() error                       { return nil }
func (c *v14ChanConn) LocalAddr() net.Addr                { return c.local }
func (c *v14ChanConn) SetDeadline(_ time.Time) error      { return nil }
func (c *v14ChanConn) SetReadDeadline(_ time.Time) error  { return nil }
func (c *v14ChanConn) SetWriteDeadline(_ time.Time) error { return nil }

func TestVerifC14_ConcurrentWriters(t *testing.T) {
	st := newVStats("TestVerifC14_ConcurrentWriters")
	defer st.Flush()
	rapid.Check(t, func(rt *rapid.T) {
		key := v14Bytes(8, rapid.Uint32().Draw(rt, "pwSeed"))
		nW := rapid.IntRange(2, 6).Draw(rt, "writers") // at most nW (<= 8) messages of the one source are incomplete at any time
		nR := rapid.IntRange(1, 3).Draw(rt, "readers")
		per := rapid.IntRange(1, 40).Draw(rt, "perWriter")
		cfg := v14GenCfg(rt, 100)
		type wr struct {
			n    int
			long bool
			seed uint32
		}
		batches := make([][]wr, nW)
		for i := range batches {
			for j := 0; j < per; j++ {
				batches[i] = append(batches[i], wr{rapid.OneOf(rapid.IntRange(1, 40), rapid.IntRange(1, 1500)).Draw(rt, "len"), rapid.IntRange(0, 4).Draw(rt, "short") != 0, rapid.Uint32().Draw(rt, "seed")})
			}
		}
		var fail string
		synctest.Test(t, func(*testing.T) {
			a := &v14ChanConn{local: &net.UDPAddr{IP: net.IPv4(10, 14, 1, 1), Port: 5000}, in: make(chan v14Pkt, 8)}
			b := &v14ChanConn{local: &net.UDPAddr{IP: net.IPv4(10, 14, 9, 9), Port: 443}, in: make(chan v14Pkt, nW*per*8+8)}
			a.peer, b.peer = b, a
			S, err := WrapPacketConnGecko(a, GeckoOptions{Password: key, MinPacketSize: cfg.min, MaxPacketSize: cfg.max})
			if err != nil {
				fail = err.Error()
				return
			}
			defer S.Close()
			R, err := WrapPacketConnGecko(b, GeckoOptions{Password: key})
			if err != nil {
				fail = err.Error()
				return
			}
			defer R.Close()
			var mu sync.Mutex
			var errs []string
			var wg, rg sync.WaitGroup
			want := map[string]int{}
			for i := range batches {
				for _, w := range batches[i] {
					p := v14Bytes(w.n, w.seed)
					if w.long {
						p[0] |= 0x80
					} else {
						p[0] &= 0x7f
					}
					want[string(p)]++
				}
			}
			got := map[string]int{}
			for r := 0; r < nR; r++ {
				rg.Add(1)
				go func() {
					defer rg.Done()
					buf := make([]byte, 2048)
					for {
						n, addr, err := R.ReadFrom(buf)
						if err != nil {
							return
						}
						mu.Lock()
						if addr == nil || addr.String() != a.local.String() {
							errs = append(errs, fmt.Sprintf("packet attributed to %v", addr))
						}
						got[string(buf[:n])]++
						mu.Unlock()
					}
				}()
			}
			for i := range batches {
				wg.Add(1)
				go func(batch []wr) {
					defer wg.Done()
					for _, w := range batch {
						p := v14Bytes(w.n, w.seed)
						if w.long {
							p[0] |= 0x80
						} else {
							p[0] &= 0x7f
						}
						if _, err := S.WriteTo(p, b.local); err != nil {
							mu.Lock()
							errs = append(errs, fmt.Sprintf("WriteTo(%d bytes): %v", len(p), err))
							mu.Unlock()
						}
					}
				}(batches[i])
			}
			wg.Wait()
			close(b.in)
			rg.Wait()
			if len(errs) > 0 {
				fail = strings.Join(errs, "; ")
				return
			}
			for k, n := range want {
				if got[k] != n {
					fail = fmt.Sprintf("packet of %d bytes %x… written %d times by concurrent writers, delivered %d times", len(k), k[:v14MinInt(len(k), 12)], n, got[k])
					return
				}
			}
			for k, n := range got {
				if want[k] == 0 {
					fail = fmt.Sprintf("receiver returned %d× a packet of %d bytes %x… that no writer wrote (mixture)", n, len(k), k[:v14MinInt(len(k), 12)])
					return
				}
			}
		})
		desc := fmt.Sprintf("writers=%d readers=%d perWriter=%d cfg=%+v", nW, nR, per, cfg)
		st.Case(true, fmt.Sprintf("%d/%d/%d/%v/%x", nW, nR, per, cfg, key[:4]), []string{fmt.Sprintf("writers=%d", nW), fmt.Sprintf("readers=%d", nR)}, func() string { return desc })
		if fail != "" {
			rt.Fatalf("C14 concurrent writers: %s; %s", fail, desc)
		}
	})
}
