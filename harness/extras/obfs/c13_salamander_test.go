package obfs

// C13 — Salamander is transparent, spec-exact, drops junk.
//
// Everything here goes through the exported WrapPacketConnSalamander over an
// in-memory net.PacketConn that records the wire bytes. The wire oracle is
// written from PROTOCOL.md ("hash = BLAKE2b-256(key + salt)", payload[i] ^=
// hash[i % 32], 8 salt bytes in front) with x/crypto's streaming BLAKE2b, and the
// vectors of the run are re-computed by Python's hashlib.blake2b (independent
// BLAKE2b implementation) once per test function.

import (
	"bufio"
	"bytes"
	"encoding/hex"
	"errors"
	"fmt"
	"net"
	"os"
	"os/exec"
	"runtime"
	"sort"
	"strings"
	"sync"
	"syscall"
	"testing"
	"time"

	"golang.org/x/crypto/blake2b"
	"pgregory.net/rapid"
)

// ------------------------------------------------------------------ oracle

// v13Hash is BLAKE2b-256(key + salt), composed here from the PROTOCOL.md text
// (streaming writes of key then salt; no shared buffer).
func v13Hash(key, salt []byte) [32]byte {
	h, err := blake2b.New256(nil)
	if err != nil {
		panic(err)
	}
	h.Write(key)
	h.Write(salt)
	var out [32]byte
	copy(out[:], h.Sum(nil))
	return out
}

// v13Encode builds the wire form of payload for a chosen salt.
func v13Encode(key, salt, payload []byte) []byte {
	hash := v13Hash(key, salt)
	w := make([]byte, 0, 8+len(payload))
	w = append(w, salt[:8]...)
	for i := 0; i < len(payload); i++ {
		w = append(w, payload[i]^hash[i%32])
	}
	return w
}

// v13Decode recovers the payload of a wire packet (which must be >= 9 bytes).
func v13Decode(key, wire []byte) ([]byte, bool) {
	if len(wire) < 9 {
		return nil, false
	}
	hash := v13Hash(key, wire[:8])
	p := make([]byte, len(wire)-8)
	for i := range p {
		p[i] = wire[8+i] ^ hash[i%32]
	}
	return p, true
}

// v13CheckWire says whether wire is the spec form of payload under key (for whatever salt it carries).
func v13CheckWire(key, payload, wire []byte) error {
	if len(wire) != 8+len(payload) {
		return fmt.Errorf("wire length %d, want 8+%d", len(wire), len(payload))
	}
	want := v13Encode(key, wire[:8], payload)
	if !bytes.Equal(want, wire) {
		i := 0
		for i < len(wire) && wire[i] == want[i] {
			i++
		}
		return fmt.Errorf("wire differs from salt||payload^BLAKE2b-256(key||salt)[i%%32] first at wire byte %d (payload byte %d): got %02x want %02x; salt=%x", i, i-8, wire[i], want[i], wire[:8])
	}
	return nil
}

// ------------------------------------------------------------------ Python cross-check

const v13PyScript = `
import sys, hashlib
n = nf = bad = 0
for line in open(sys.argv[1]):
    f = line.split()
    if not f:
        continue
    key = bytes.fromhex(f[1]); salt = bytes.fromhex(f[2])
    h = hashlib.blake2b(key + salt, digest_size=32).digest()
    n += 1
    if f[0] == 'D':
        if h != bytes.fromhex(f[3]):
            bad += 1; print('MISMATCH digest', line[:160])
    else:
        p = bytes.fromhex(f[3]); w = bytes.fromhex(f[4]); nf += 1
        exp = salt + bytes(p[i] ^ h[i % 32] for i in range(len(p)))
        if exp != w:
            bad += 1; print('MISMATCH wire', line[:160])
print('CHECKED', n, nf, bad)
sys.exit(1 if bad else 0)
`

// v13XCheck collects vectors of the run for the Python re-computation.
// Every vector contributes a digest line (key, salt, BLAKE2b digest used by the
// Go oracle); full (key, salt, payload, observed wire) lines are written while a
// byte budget lasts (bounded file size), the rest is counted.
type v13XCheck struct {
	mu      sync.Mutex
	f       *os.File
	w       *bufio.Writer
	path    string
	budget  int
	digests int
	fulls   int
}

func v13NewXCheck(budget int) *v13XCheck {
	f, err := os.CreateTemp(".", "c13-vectors-*.txt")
	if err != nil {
		return &v13XCheck{}
	}
	return &v13XCheck{f: f, w: bufio.NewWriterSize(f, 1<<16), path: f.Name(), budget: budget}
}

func (x *v13XCheck) add(key, payload, wire []byte) {
	if x.f == nil || len(wire) < 8 {
		return
	}
	x.mu.Lock()
	defer x.mu.Unlock()
	salt := wire[:8]
	cost := 2 * (len(payload) + len(wire))
	if cost <= x.budget {
		x.budget -= cost
		x.fulls++
		fmt.Fprintf(x.w, "F %x %x %x %x\n", key, salt, payload, wire)
		return
	}
	h := v13Hash(key, salt)
	x.digests++
	fmt.Fprintf(x.w, "D %x %x %x\n", key, salt, h[:])
}

// finish runs python3 once. A disagreement is a violation (the wire the
// implementation produced — already equal to the Go oracle — is not what an
// independent BLAKE2b gives). A missing python3 skips the cross-check (recorded).
func (x *v13XCheck) finish(t *testing.T, st *vStats) {
	if x.f == nil {
		st.Extra("python_crosscheck", "skipped: could not create vector file")
		return
	}
	x.w.Flush()
	x.f.Close()
	if t.Failed() {
		return // keep the file next to the failure
	}
	py, err := exec.LookPath("python3")
	if err != nil {
		st.Extra("python_crosscheck", "skipped: python3 not found")
		os.Remove(x.path)
		return
	}
	out, err := exec.Command(py, "-c", v13PyScript, x.path).CombinedOutput()
	s := string(out)
	if strings.Contains(s, "MISMATCH") {
		t.Fatalf("C13: independent BLAKE2b (python3 hashlib) disagrees with the observed wire bytes:\n%s(vectors kept in %s)", v13Clip(s, 1500), x.path)
	}
	if err != nil || !strings.Contains(s, "CHECKED") {
		// python exists but could not run the script: environment trouble, not a verdict
		st.Extra("python_crosscheck", "skipped: python3 failed to run: "+v13Clip(s, 200))
		os.Remove(x.path)
		return
	}
	st.Extra("python_crosscheck", strings.TrimSpace(s[strings.Index(s, "CHECKED"):])+fmt.Sprintf(" (vectors=%d full wire recomputed=%d digest-only=%d)", x.fulls+x.digests, x.fulls, x.digests))
	os.Remove(x.path)
}

func v13Clip(s string, n int) string {
	if len(s) > n {
		return s[:n] + "…"
	}
	return s
}

// ------------------------------------------------------------------ in-memory socket

var errV13Empty = errors.New("v13: nothing queued")

type v13Pkt struct {
	data []byte
	addr net.Addr
}

// v13Conn is one end of an in-memory datagram socket. Sequential mode (ch == nil):
// ReadFrom pops the inbox or returns errV13Empty. Concurrent mode: ReadFrom
// blocks on ch until it is closed. Every WriteTo is logged (wire bytes + the
// destination the caller passed) and handed to deliver.
type v13Conn struct {
	local   net.Addr
	mu      sync.Mutex
	inbox   []v13Pkt
	sent    []v13Pkt
	ch      chan v13Pkt
	deliver func(p v13Pkt) // called outside mu with src-addressed packet

	// transient send failures (the kernel refusing a datagram): a refused call is
	// neither logged nor delivered. failNext is consumed call by call (sequential
	// mode); failPlan[dst][k] decides the k-th call towards dst (concurrent mode,
	// independent of the schedule because every writer has its own dst).
	failNext  []error
	failPlan  map[string][]error
	failCalls map[string]int
	refused   int
}

// the errors a UDP socket hands out when its send queue is momentarily full, bare and wrapped
// the way package net wraps them, plus a generic temporary net.Error and a hard error
type v13TempErr struct{}

func (v13TempErr) Error() string   { return "v13: temporary send failure" }
func (v13TempErr) Timeout() bool   { return false }
func (v13TempErr) Temporary() bool { return true }

var v13SendErrs = []error{
	syscall.ENOBUFS,
	syscall.EAGAIN,
	&net.OpError{Op: "write", Net: "udp", Err: os.NewSyscallError("sendto", syscall.ENOBUFS)},
	&net.OpError{Op: "write", Net: "udp", Err: os.NewSyscallError("sendmsg", syscall.EAGAIN)},
	&net.OpError{Op: "write", Net: "udp", Err: v13TempErr{}},
	errors.New("v13: hard send failure"),
}

func (c *v13Conn) ReadFrom(p []byte) (int, net.Addr, error) {
	if c.ch != nil {
		pk, ok := <-c.ch
		if !ok {
			return 0, nil, net.ErrClosed
		}
		return copy(p, pk.data), pk.addr, nil
	}
	c.mu.Lock()
	defer c.mu.Unlock()
	if len(c.inbox) == 0 {
		return 0, nil, errV13Empty
	}
	pk := c.inbox[0]
	c.inbox = c.inbox[1:]
	return copy(p, pk.data), pk.addr, nil
}

func (c *v13Conn) WriteTo(p []byte, addr net.Addr) (int, error) {
	if c.ch != nil {
		// concurrent mode: give other goroutines a chance before the datagram is taken off
		// the caller's buffer (a real sendto may be preempted here just as well)
		for i := 0; i < 3; i++ {
			runtime.Gosched()
		}
	}
	c.mu.Lock()
	var ferr error
	if len(c.failNext) > 0 {
		ferr, c.failNext = c.failNext[0], c.failNext[1:]
	} else if c.failPlan != nil && addr != nil {
		a := addr.String()
		k := c.failCalls[a]
		c.failCalls[a] = k + 1
		if plan := c.failPlan[a]; k < len(plan) {
			ferr = plan[k]
		}
	}
	if ferr != nil {
		c.refused++
		c.mu.Unlock()
		return 0, ferr
	}
	cp := append([]byte(nil), p...)
	c.sent = append(c.sent, v13Pkt{cp, addr})
	c.mu.Unlock()
	if c.deliver != nil {
		c.deliver(v13Pkt{cp, c.local})
	}
	return len(p), nil
}

// v13ConnUDP is the same socket, but "UDP-like" (SyscallConn / SetReadBuffer / SetWriteBuffer): the package
// then returns the UDP variant of its wrapper (obfsPacketConnUDP), as it does for a real *net.UDPConn.
type v13ConnUDP struct{ *v13Conn }

func (v13ConnUDP) SyscallConn() (syscall.RawConn, error) { return nil, errors.ErrUnsupported }
func (v13ConnUDP) SetReadBuffer(int) error               { return nil }
func (v13ConnUDP) SetWriteBuffer(int) error              { return nil }

func v13Inner(c *v13Conn, udpLike bool) net.PacketConn {
	if udpLike {
		return v13ConnUDP{c}
	}
	return c
}

func (c *v13Conn) push(p v13Pkt) {
	c.mu.Lock()
	c.inbox = append(c.inbox, p)
	c.mu.Unlock()
}

func (c *v13Conn) nsent() int {
	c.mu.Lock()
	defer c.mu.Unlock()
	return len(c.sent)
}

func (c *v13Conn) Close() error                       { return nil }
func (c *v13Conn) LocalAddr() net.Addr                { return c.local }
func (c *v13Conn) SetDeadline(_ time.Time) error      { return nil }
func (c *v13Conn) SetReadDeadline(_ time.Time) error  { return nil }
func (c *v13Conn) SetWriteDeadline(_ time.Time) error { return nil }

// ------------------------------------------------------------------ generators

func v13Bytes(n int, seed uint32) []byte {
	b := make([]byte, n)
	x := seed*2654435761 + 0x9e3779b9
	for i := range b {
		x ^= x << 13
		x ^= x >> 17
		x ^= x << 5
		b[i] = byte(x >> 11)
	}
	return b
}

// keys of 4+ bytes; lengths around 32/64 and around the BLAKE2b block (key+salt = 128 bytes at 120).
func v13GenKey(t *rapid.T) []byte {
	n := rapid.OneOf(
		rapid.SampledFrom([]int{4, 5, 8, 16, 31, 32, 33, 56, 63, 64, 119, 120, 121, 128, 248, 300}),
		rapid.IntRange(4, 64),
	).Draw(t, "keyLen")
	switch rapid.IntRange(0, 5).Draw(t, "keyKind") {
	case 0:
		return bytes.Repeat([]byte{0}, n)
	case 1:
		return bytes.Repeat([]byte{0xff}, n)
	case 2:
		return []byte(strings.Repeat("password", n/8+1)[:n])
	default:
		return v13Bytes(n, rapid.Uint32().Draw(t, "keySeed"))
	}
}

// payload lengths the wrapper's callers can send: 1..2040 (2048-byte buffers minus the salt).
func v13GenLen(t *rapid.T) int {
	return rapid.OneOf(
		rapid.SampledFrom([]int{1, 2, 31, 32, 33, 63, 64, 65, 1200, 1252, 1500, 2039, 2040}),
		rapid.IntRange(1, 100),
		rapid.IntRange(1, 2040),
	).Draw(t, "payloadLen")
}

func v13GenPayload(t *rapid.T) []byte {
	n := v13GenLen(t)
	switch rapid.IntRange(0, 7).Draw(t, "payloadKind") {
	case 0:
		return bytes.Repeat([]byte{0}, n) // wire shows the raw keystream
	case 1:
		return bytes.Repeat([]byte{0xff}, n)
	default:
		return v13Bytes(n, rapid.Uint32().Draw(t, "payloadSeed"))
	}
}

func v13GenSalt(t *rapid.T) []byte {
	switch rapid.IntRange(0, 5).Draw(t, "saltKind") {
	case 0:
		return make([]byte, 8)
	case 1:
		return bytes.Repeat([]byte{0xff}, 8)
	default:
		return v13Bytes(8, rapid.Uint32().Draw(t, "saltSeed"))
	}
}

func v13Addr(host, port int) net.Addr {
	return &net.UDPAddr{IP: net.IPv4(10, 13, byte(host>>8), byte(host)), Port: port}
}

// ------------------------------------------------------------------ sequential: wire format, round trip, junk

type v13Expect struct {
	kind    int // 0 valid, 1 junk (1..8 bytes), 2 zero-length datagram
	payload []byte
	src     string
	via     string
}

type v13End struct {
	name  string
	fake  *v13Conn
	w     net.PacketConn
	queue []v13Expect // model of what is queued towards this end's reader
}

func TestVerifC13_WireRoundTripJunk(t *testing.T) {
	st := newVStats("TestVerifC13_WireRoundTripJunk")
	defer st.Flush()
	xc := v13NewXCheck(8 << 20)
	defer xc.finish(t, st)
	rapid.Check(t, func(rt *rapid.T) {
		key := v13GenKey(rt)
		mk := func(name string, host int) *v13End {
			f := &v13Conn{local: v13Addr(host, 4000+host)}
			udpLike := rapid.Bool().Draw(rt, "udpLikeInner")
			if udpLike {
				name += "(udp)"
			}
			w, err := WrapPacketConnSalamander(v13Inner(f, udpLike), append([]byte(nil), key...))
			if err != nil || w == nil {
				rt.Fatalf("C13: key of %d bytes refused: %v", len(key), err)
			}
			return &v13End{name: name, fake: f, w: w}
		}
		X, Y := mk("X", 1), mk("Y", 2)
		udpN := strings.Count(X.name+Y.name, "(udp)")
		X.fake.deliver = func(p v13Pkt) { Y.fake.push(p) }
		Y.fake.deliver = func(p v13Pkt) { X.fake.push(p) }

		var trace []string
		var cls = map[string]bool{}
		maxLen, junkN, zeroN, validN := 0, 0, 0, 0
		// recorded when the case ends, also when it ends in a failure
		defer func() {
			var cl []string
			for k := range cls {
				cl = append(cl, k)
			}
			sort.Strings(cl)
			switch {
			case maxLen >= 2039:
				cl = append(cl, "len>=2039")
			case maxLen >= 33:
				cl = append(cl, "len33..2038")
			case maxLen >= 1:
				cl = append(cl, "len1..32")
			}
			if len(key) > 64 {
				cl = append(cl, "key>64")
			}
			if len(key) == 4 {
				cl = append(cl, "key=4")
			}
			cl = append(cl, fmt.Sprintf("udp-like-ends=%d", udpN))
			nt := validN > 0 && (maxLen >= 33 || junkN > 0)
			st.Case(nt, fmt.Sprintf("k%d|%s", len(key), strings.Join(trace, ",")), cl, func() string {
				return fmt.Sprintf("key=%d bytes; %s", len(key), strings.Join(trace, " "))
			})
		}()

		// one read on end e, compared with the model queue
		read := func(e *v13End) (done bool) {
			// size of the reader's buffer: at least the next valid payload
			next := -1
			for _, q := range e.queue {
				if q.kind == 0 {
					next = len(q.payload)
					break
				}
			}
			bl := 2048
			if next >= 0 {
				switch rapid.IntRange(0, 4).Draw(rt, "bufKind") {
				case 0:
					bl = next
				case 1:
					bl = next + 1
				case 2:
					bl = 2040
				case 3:
					bl = 4096
				}
				if bl < next {
					bl = next
				}
			}
			buf := bytes.Repeat([]byte{0xA5}, bl)
			n, addr, err := e.w.ReadFrom(buf)
			// skip what the statement says never surfaces
			skipped := 0
			for len(e.queue) > 0 && e.queue[0].kind == 1 {
				e.queue = e.queue[1:]
				skipped++
			}
			switch {
			case err != nil:
				if !errors.Is(err, errV13Empty) {
					rt.Fatalf("C13: %s.ReadFrom returned unexpected error %v; history=%v", e.name, err, trace)
				}
				// the socket ran dry: every queued valid packet must have been returned before
				for len(e.queue) > 0 && e.queue[0].kind != 0 {
					e.queue = e.queue[1:]
				}
				if len(e.queue) > 0 {
					rt.Fatalf("C13: %s.ReadFrom drained the socket without returning a valid %d-byte packet (sent via %s); history=%v", e.name, len(e.queue[0].payload), e.queue[0].via, trace)
				}
				if n != 0 {
					rt.Fatalf("C13: %s.ReadFrom returned n=%d together with error %v", e.name, n, err)
				}
				trace = append(trace, fmt.Sprintf("%s.read->empty(skipped %d)", e.name, skipped))
				return true
			case n == 0:
				// allowed only for a 0-byte datagram (documented reading: quic-go discards a 0-byte read)
				for len(e.queue) > 0 && e.queue[0].kind == 1 {
					e.queue = e.queue[1:]
				}
				if len(e.queue) == 0 || e.queue[0].kind != 2 {
					rt.Fatalf("C13: %s.ReadFrom returned (0, %v, nil) although no 0-byte datagram was next: a too-short (1..8 byte) packet surfaced to the caller; history=%v", e.name, addr, trace)
				}
				e.queue = e.queue[1:]
				trace = append(trace, e.name+".read->0")
				return false
			default:
				// a 0-byte datagram may also have been dropped silently
				for len(e.queue) > 0 && e.queue[0].kind != 0 {
					e.queue = e.queue[1:]
				}
				if len(e.queue) == 0 {
					rt.Fatalf("C13: %s.ReadFrom returned %d bytes %x… but nothing valid was queued (junk surfaced); history=%v", e.name, n, buf[:v13MinInt(n, 16)], trace)
				}
				q := e.queue[0]
				e.queue = e.queue[1:]
				if n != len(q.payload) {
					rt.Fatalf("C13: %s.ReadFrom reported n=%d for a packet of %d bytes (sent via %s, key %d bytes); history=%v", e.name, n, len(q.payload), q.via, len(key), trace)
				}
				if !bytes.Equal(buf[:n], q.payload) {
					rt.Fatalf("C13: %s.ReadFrom returned different bytes than were sent (len %d, via %s, key %x): got %x… want %x…; history=%v", e.name, n, q.via, key, buf[:v13MinInt(n, 40)], q.payload[:v13MinInt(n, 40)], trace)
				}
				if addr == nil || addr.String() != q.src {
					rt.Fatalf("C13: %s.ReadFrom returned source %v, want %s; history=%v", e.name, addr, q.src, trace)
				}
				trace = append(trace, fmt.Sprintf("%s.read->%d", e.name, n))
				return false
			}
		}

		nops := rapid.IntRange(1, 12).Draw(rt, "nops")
		for i := 0; i < nops; i++ {
			from, to := X, Y
			if rapid.Bool().Draw(rt, "dir") {
				from, to = Y, X
			}
			op := rapid.SampledFrom([]int{0, 0, 0, 0, 1, 1, 1, 2, 2, 2, 3, 4, 4, 5}).Draw(rt, "op")
			switch op {
			case 0, 5: // write through the wrapper; 5: the inner socket refuses the datagram (transiently) once or twice
				p := v13GenPayload(rt)
				keep := append([]byte(nil), p...)
				dst := v13Addr(7, 7000+i)
				var injected []error
				if op == 5 {
					e := rapid.SampledFrom(v13SendErrs).Draw(rt, "sendErr")
					injected = []error{e}
					if rapid.Bool().Draw(rt, "refuseTwice") {
						injected = append(injected, e)
					}
					from.fake.mu.Lock()
					from.fake.failNext = append([]error(nil), injected...)
					from.fake.mu.Unlock()
					cls["inner-send-refused"] = true
				}
				before := from.fake.nsent()
				n, err := from.w.WriteTo(p, dst)
				trace = append(trace, fmt.Sprintf("%s.write(%d)", from.name, len(p)))
				from.fake.mu.Lock()
				sent := from.fake.sent[before:]
				from.fake.failNext = nil
				from.fake.mu.Unlock()
				if op == 5 {
					trace[len(trace)-1] += fmt.Sprintf("[inner refused x%d: %v]->(%d,%v)", len(injected), injected[0], n, err)
					// a refused send may be reported as the error it was, or have been repeated successfully
					if err != nil {
						if !errors.Is(err, injected[0]) {
							rt.Fatalf("C13: %s.WriteTo returned error %v, the inner socket had failed with %v; history=%v", from.name, err, injected[0], trace)
						}
						if len(sent) > 1 {
							rt.Fatalf("C13: a failed WriteTo left %d datagrams on the wire; history=%v", len(sent), trace)
						}
						if len(sent) == 0 {
							continue // nothing was sent, nothing will arrive
						}
					} else if len(sent) == 0 {
						rt.Fatalf("C13: %s.WriteTo(%d bytes) reported success (%d, nil) but the inner socket accepted no datagram (it refused with %v); history=%v", from.name, len(keep), n, injected[0], trace)
					}
				}
				if op != 5 || err == nil {
					if err != nil || n != len(keep) {
						rt.Fatalf("C13: %s.WriteTo(%d bytes) returned (%d, %v), want (%d, nil); history=%v", from.name, len(keep), n, err, len(keep), trace)
					}
				}
				if len(sent) != 1 {
					rt.Fatalf("C13: one WriteTo produced %d datagrams on the wire; history=%v", len(sent), trace)
				}
				if sent[0].addr == nil || sent[0].addr.String() != dst.String() {
					rt.Fatalf("C13: datagram sent to %v, caller asked for %v", sent[0].addr, dst)
				}
				if err := v13CheckWire(key, keep, sent[0].data); err != nil {
					rt.Fatalf("C13: wire format (key %x, payload %d bytes %x…): %v; history=%v", key, len(keep), keep[:v13MinInt(len(keep), 16)], err, trace)
				}
				xc.add(key, keep, sent[0].data)
				to.queue = append(to.queue, v13Expect{0, keep, from.fake.local.String(), "wrapper " + from.name})
				validN++
				if len(keep) > maxLen {
					maxLen = len(keep)
				}
			case 1: // a foreign implementation (the harness encoder, any salt) sends to `to`
				p := v13GenPayload(rt)
				salt := v13GenSalt(rt)
				wire := v13Encode(key, salt, p)
				src := v13Addr(9, 9000+i)
				to.fake.push(v13Pkt{wire, src})
				xc.add(key, p, wire)
				to.queue = append(to.queue, v13Expect{0, p, src.String(), "harness encoder"})
				trace = append(trace, fmt.Sprintf("inject->%s(%d,salt=%x)", to.name, len(p), salt))
				validN++
				cls["foreign-encoder"] = true
				if len(p) > maxLen {
					maxLen = len(p)
				}
			case 2: // junk: 1..8 wire bytes
				jl := rapid.IntRange(1, 8).Draw(rt, "junkLen")
				to.fake.push(v13Pkt{v13Bytes(jl, rapid.Uint32().Draw(rt, "junkSeed")), v13Addr(6, 6000+i)})
				to.queue = append(to.queue, v13Expect{kind: 1})
				trace = append(trace, fmt.Sprintf("junk->%s(%d)", to.name, jl))
				junkN++
				cls[fmt.Sprintf("junk%d", jl)] = true
			case 3: // 0-byte datagram
				to.fake.push(v13Pkt{[]byte{}, v13Addr(6, 6500+i)})
				to.queue = append(to.queue, v13Expect{kind: 2})
				trace = append(trace, "zero->"+to.name)
				zeroN++
				cls["zero-datagram"] = true
			case 4: // read now
				e := X
				if rapid.Bool().Draw(rt, "readEnd") {
					e = Y
				}
				read(e)
			}
		}
		for _, e := range []*v13End{X, Y} {
			for guard := 0; guard < 64; guard++ {
				if read(e) {
					break
				}
			}
		}
	})
}

func v13MinInt(a, b int) int {
	if a < b {
		return a
	}
	return b
}

// ------------------------------------------------------------------ key length

func TestVerifC13_KeyLength(t *testing.T) {
	st := newVStats("TestVerifC13_KeyLength")
	defer st.Flush()
	for n := 0; n <= 8; n++ {
		for kind, key := range [][]byte{bytes.Repeat([]byte{0}, n), bytes.Repeat([]byte{0xff}, n), v13Bytes(n, uint32(n)+1), []byte(strings.Repeat("a", n))} {
			if n == 0 && kind == 3 {
				key = nil
			}
			w, err := WrapPacketConnSalamander(&v13Conn{local: v13Addr(1, 1)}, key)
			st.Case(true, fmt.Sprintf("%d/%d", n, kind), []string{fmt.Sprintf("keyLen=%d", n)}, func() string { return fmt.Sprintf("key %x -> err=%v", key, err) })
			if n < 4 {
				if err == nil || w != nil {
					t.Fatalf("C13: key of %d bytes (%x) was accepted (conn=%v, err=%v); keys shorter than 4 bytes must be refused", n, key, w, err)
				}
				if !errors.Is(err, ErrPSKTooShort) {
					t.Fatalf("C13: key of %d bytes refused with %v, want ErrPSKTooShort", n, err)
				}
			} else if err != nil || w == nil {
				t.Fatalf("C13: key of %d bytes (%x) was refused: %v", n, key, err)
			}
		}
	}
}

// ------------------------------------------------------------------ concurrent readers and writers on one wrapped socket

type v13Got struct {
	payload []byte
	addr    string
}

func v13Multiset(xs []v13Got) []string {
	out := make([]string, len(xs))
	for i, x := range xs {
		out[i] = x.addr + "|" + hex.EncodeToString(x.payload)
	}
	sort.Strings(out)
	return out
}

func v13DiffMultiset(got, want []string) string {
	cnt := map[string]int{}
	for _, w := range want {
		cnt[w]++
	}
	for _, g := range got {
		cnt[g]--
	}
	var miss, extra []string
	for k, v := range cnt {
		if v > 0 {
			miss = append(miss, fmt.Sprintf("%dx %s", v, v13Clip(k, 90)))
		} else if v < 0 {
			extra = append(extra, fmt.Sprintf("%dx %s", -v, v13Clip(k, 90)))
		}
	}
	sort.Strings(miss)
	sort.Strings(extra)
	if len(miss) == 0 && len(extra) == 0 {
		return ""
	}
	if len(miss) > 4 {
		miss = append(miss[:4], fmt.Sprintf("… %d more", len(miss)-4))
	}
	if len(extra) > 4 {
		extra = append(extra[:4], fmt.Sprintf("… %d more", len(extra)-4))
	}
	return fmt.Sprintf("missing=%v unexpected=%v", miss, extra)
}

func TestVerifC13_Concurrent(t *testing.T) {
	st := newVStats("TestVerifC13_Concurrent")
	defer st.Flush()
	xc := v13NewXCheck(4 << 20)
	defer xc.finish(t, st)
	rapid.Check(t, func(rt *rapid.T) {
		key := v13GenKey(rt)
		nW := rapid.IntRange(2, 8).Draw(rt, "writers")
		nR := rapid.IntRange(2, 4).Draw(rt, "readers")
		nPW := rapid.IntRange(1, 3).Draw(rt, "peerWriters")
		nPR := rapid.IntRange(1, 3).Draw(rt, "peerReaders")
		per := rapid.IntRange(1, 12).Draw(rt, "perWriter")
		nInject := rapid.IntRange(0, 30).Draw(rt, "inject")

		// everything is drawn before any goroutine starts
		genBatch := func(n int, label string) [][]byte {
			b := make([][]byte, n)
			for i := range b {
				l := rapid.OneOf(rapid.SampledFrom([]int{1, 2, 32, 33, 64, 1200, 2039, 2040}), rapid.IntRange(1, 200), rapid.IntRange(1, 2040)).Draw(rt, label+"Len")
				b[i] = v13Bytes(l, rapid.Uint32().Draw(rt, label+"Seed"))
			}
			return b
		}
		sBatches := make([][][]byte, nW) // written through the socket under test S
		for i := range sBatches {
			sBatches[i] = genBatch(per, "s")
		}
		// transient refusals by S's inner socket, planned per writer (every writer has its own dst, so the
		// plan does not depend on the schedule); twice as long as the batch in case the wrapper repeats a send
		failMode := rapid.SampledFrom([]int{0, 1, 1, 2, 2}).Draw(rt, "sendFailures") // none, sparse, heavy
		plan := map[string][]error{}
		planned := 0
		if failMode > 0 {
			for i := 0; i < nW; i++ {
				pl := make([]error, 2*per)
				for k := range pl {
					if rapid.IntRange(0, []int{0, 5, 1}[failMode]).Draw(rt, "refuse") == 0 {
						pl[k] = rapid.SampledFrom(append([]error{syscall.ENOBUFS, syscall.EAGAIN, syscall.ENOBUFS}, v13SendErrs...)).Draw(rt, "sendErr")
						planned++
					}
				}
				plan[v13Addr(3, 5000+i).String()] = pl
			}
		}
		pBatches := make([][][]byte, nPW) // written through the peer P towards S
		for i := range pBatches {
			pBatches[i] = genBatch(per, "p")
		}
		type inj struct {
			wire []byte
			src  net.Addr
			exp  *v13Got
			zero bool
		}
		var injs []inj
		junkN, zeroN := 0, 0
		for i := 0; i < nInject; i++ {
			src := v13Addr(9, 9000+i)
			switch rapid.IntRange(0, 3).Draw(rt, "injKind") {
			case 0, 1:
				p := genBatch(1, "i")[0]
				injs = append(injs, inj{wire: v13Encode(key, v13GenSalt(rt), p), src: src, exp: &v13Got{p, src.String()}})
			case 2:
				injs = append(injs, inj{wire: v13Bytes(rapid.IntRange(1, 8).Draw(rt, "junkLen"), uint32(i)), src: src})
				junkN++
			default:
				injs = append(injs, inj{wire: []byte{}, src: src, zero: true})
				zeroN++
			}
		}

		total := nW*per + nPW*per + len(injs) + 8
		fS := &v13Conn{local: v13Addr(1, 4001), ch: make(chan v13Pkt, total), failPlan: plan, failCalls: map[string]int{}}
		fP := &v13Conn{local: v13Addr(2, 4002), ch: make(chan v13Pkt, total)}
		fS.deliver = func(p v13Pkt) { fP.ch <- p }
		fP.deliver = func(p v13Pkt) { fS.ch <- p }
		udpS, udpP := rapid.Bool().Draw(rt, "udpLikeS"), rapid.Bool().Draw(rt, "udpLikeP")
		S, err := WrapPacketConnSalamander(v13Inner(fS, udpS), key)
		if err != nil {
			rt.Fatalf("C13: key refused: %v", err)
		}
		P, err := WrapPacketConnSalamander(v13Inner(fP, udpP), key)
		if err != nil {
			rt.Fatalf("C13: key refused: %v", err)
		}

		var failMu sync.Mutex
		var fails []string
		fail := func(f string, a ...any) {
			failMu.Lock()
			fails = append(fails, fmt.Sprintf(f, a...))
			failMu.Unlock()
		}
		// res[j] receives the error the j-th WriteTo of the batch returned (nil = reported success)
		writer := func(c net.PacketConn, name string, batch [][]byte, dst net.Addr, res []error, wg *sync.WaitGroup) {
			defer wg.Done()
			for j, p := range batch {
				n, err := c.WriteTo(p, dst)
				if res != nil && err != nil {
					res[j] = err
					continue
				}
				if err != nil || n != len(p) {
					fail("%s.WriteTo(%d bytes) returned (%d, %v)", name, len(p), n, err)
				}
			}
		}
		sRes := make([][]error, nW)
		for i := range sRes {
			sRes[i] = make([]error, per)
		}
		reader := func(c net.PacketConn, name string, out *[]v13Got, zeros *int, wg *sync.WaitGroup) {
			defer wg.Done()
			buf := make([]byte, 2048)
			for {
				n, addr, err := c.ReadFrom(buf)
				if err != nil {
					if !errors.Is(err, net.ErrClosed) {
						fail("%s.ReadFrom: unexpected error %v", name, err)
					}
					return
				}
				if n == 0 {
					*zeros++
					continue
				}
				a := "<nil>"
				if addr != nil {
					a = addr.String()
				}
				*out = append(*out, v13Got{append([]byte(nil), buf[:n]...), a})
			}
		}

		var toS, toP, rdS, rdP sync.WaitGroup
		gotS := make([][]v13Got, nR)
		zerosS := make([]int, nR)
		gotP := make([][]v13Got, nPR)
		zerosP := make([]int, nPR)
		for i := 0; i < nR; i++ {
			rdS.Add(1)
			go reader(S, "S", &gotS[i], &zerosS[i], &rdS)
		}
		for i := 0; i < nPR; i++ {
			rdP.Add(1)
			go reader(P, "P", &gotP[i], &zerosP[i], &rdP)
		}
		for i := 0; i < nW; i++ {
			toP.Add(1)
			go writer(S, "S", sBatches[i], v13Addr(3, 5000+i), sRes[i], &toP)
		}
		for i := 0; i < nPW; i++ {
			toS.Add(1)
			go writer(P, "P", pBatches[i], v13Addr(4, 5500+i), nil, &toS)
		}
		toS.Add(1)
		go func() {
			defer toS.Done()
			for _, in := range injs {
				fS.ch <- v13Pkt{in.wire, in.src}
			}
		}()
		toS.Wait()
		close(fS.ch)
		toP.Wait()
		close(fP.ch)
		rdS.Wait()
		rdP.Wait()

		failedWrites := 0
		for i := range sRes {
			for j, e := range sRes[i] {
				if e == nil {
					continue
				}
				failedWrites++
				// an error may only be one the inner socket produced for this writer
				ok := false
				for _, pe := range plan[v13Addr(3, 5000+i).String()] {
					if pe != nil && errors.Is(e, pe) {
						ok = true
					}
				}
				if !ok {
					fail("S.WriteTo #%d of writer %d returned %v, which the inner socket never produced for it", j, i, e)
				}
			}
		}
		desc := fmt.Sprintf("udp-like inner (S %v, peer %v) key=%d bytes writers=%d readers=%d perWriter=%d peerWriters=%d peerReaders=%d injected=%d (junk %d, zero %d) inner send refusals planned=%d happened=%d, WriteTo errors=%d", udpS, udpP, len(key), nW, nR, per, nPW, nPR, len(injs), junkN, zeroN, planned, fS.refused, failedWrites)
		kh := v13Hash(key, make([]byte, 8))
		st.Case(true, fmt.Sprintf("%d/%d/%d/%d/%d/%x", nW, nR, per, nPW, len(injs), kh[:4]), []string{fmt.Sprintf("writers=%d", nW), fmt.Sprintf("readers=%d", nR), fmt.Sprintf("sendFailures=%d", failMode), fmt.Sprintf("udpLikeS=%v", udpS)}, func() string { return desc })
		if len(fails) > 0 {
			rt.Fatalf("C13 concurrent: %s; %s", strings.Join(fails, "; "), desc)
		}

		// (1) wire of S: every datagram is the spec form of exactly the packets S's writers sent, to the address they gave
		// (a WriteTo that reported success has exactly its own packet there; one that reported the inner
		// socket's error has it at most once; nothing else, in particular never another writer's packet twice)
		var wantWire, mayWire, gotWire []v13Got
		for i, b := range sBatches {
			for j, p := range b {
				if sRes[i][j] == nil {
					wantWire = append(wantWire, v13Got{p, v13Addr(3, 5000+i).String()})
				} else {
					mayWire = append(mayWire, v13Got{p, v13Addr(3, 5000+i).String()})
				}
			}
		}
		for _, d := range fS.sent {
			p, ok := v13Decode(key, d.data)
			if !ok {
				rt.Fatalf("C13 concurrent: S put a %d-byte datagram on the wire (shorter than salt+1); %s", len(d.data), desc)
			}
			gotWire = append(gotWire, v13Got{p, d.addr.String()})
			xc.add(key, p, d.data)
		}
		gotWire = v13DropOptional(gotWire, wantWire, mayWire)
		if d := v13DiffMultiset(v13Multiset(gotWire), v13Multiset(wantWire)); d != "" {
			rt.Fatalf("C13 concurrent: decoding S's wire datagrams with the spec keystream does not give exactly the packets whose WriteTo reported success (plus at most one copy of those that reported the inner socket's error): %s; %s", d, desc)
		}
		// (2) the peer (same key) received exactly those, from S's address
		// (what was on the wire is what must arrive: decode of the wire log, attributed to S)
		var wantP, allP []v13Got
		for _, d := range fS.sent {
			p, _ := v13Decode(key, d.data)
			wantP = append(wantP, v13Got{p, fS.local.String()})
		}
		for _, g := range gotP {
			allP = append(allP, g...)
		}
		if d := v13DiffMultiset(v13Multiset(allP), v13Multiset(wantP)); d != "" {
			rt.Fatalf("C13 concurrent: multiset received by the peer != multiset S put on the wire: %s; %s", d, desc)
		}
		// (3) S's readers received exactly what the peer's writers and the foreign encoder sent; junk never surfaced
		var wantS, allS []v13Got
		for _, b := range pBatches {
			for _, p := range b {
				wantS = append(wantS, v13Got{p, fP.local.String()})
			}
		}
		for _, in := range injs {
			if in.exp != nil {
				wantS = append(wantS, *in.exp)
			}
		}
		zs := 0
		for i, g := range gotS {
			allS = append(allS, g...)
			zs += zerosS[i]
		}
		if d := v13DiffMultiset(v13Multiset(allS), v13Multiset(wantS)); d != "" {
			rt.Fatalf("C13 concurrent: multiset read from S != multiset sent to it: %s; %s", d, desc)
		}
		if zs > zeroN {
			rt.Fatalf("C13 concurrent: S surfaced %d empty reads but only %d 0-byte datagrams were sent (junk surfaced); %s", zs, zeroN, desc)
		}
		for i := range zerosP {
			if zerosP[i] > 0 {
				rt.Fatalf("C13 concurrent: the peer surfaced an empty read although nothing short was sent to it; %s", desc)
			}
		}
	})
}

// v13DropOptional removes from got at most one copy of every element of may that is
// in excess of want (a packet whose WriteTo reported an error may or may not be on the wire).
func v13DropOptional(got, want, may []v13Got) []v13Got {
	key := func(g v13Got) string { return g.addr + "|" + string(g.payload) }
	excess := map[string]int{}
	for _, g := range got {
		excess[key(g)]++
	}
	for _, w := range want {
		excess[key(w)]--
	}
	allow := map[string]int{}
	for _, m := range may {
		allow[key(m)]++
	}
	var out []v13Got
	for _, g := range got {
		k := key(g)
		if excess[k] > 0 && allow[k] > 0 {
			excess[k]--
			allow[k]--
			continue
		}
		out = append(out, g)
	}
	return out
}
