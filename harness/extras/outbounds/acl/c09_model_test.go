package acl

// C09 — ACL decisions are first-match and independent of lookup history.
//
// This file is the package-independent part of the check: the rule/query
// generators, the rule-file renderer and the reference evaluator. It uses
// nothing from the code under test (only the standard library and rapid) and
// is kept byte-identical, apart from the package clause, in
//   harness/extras/outbounds/acl/c09_model_test.go      (package acl)
//   harness/extras/outbounds/c09_model_test.go          (package outbounds)
//
// Semantics of the reference (each grounded in the property statement or in the
// ACL semantics the repo documents through compile.go comments / TestCompile):
//   * rules are tried in file order, the first rule whose address pattern,
//     protocol and port range all match decides (outbound, hijack); none -> default;
//   * host names and domain patterns compare case-insensitively (ASCII) and
//     ignoring ONE trailing dot (the statement's wording; more dots are not generated);
//   * exact: name == pattern; suffix:d : name == d or name ends with "."+d
//     (TestCompile: microsoft.com and real.microsoft.com match suffix:microsoft.com,
//     fakemicrosoft.com does not); wildcard: '*' matches any (possibly empty)
//     run of characters including dots, everything else is literal;
//   * IP rule: equal to the resolved IPv4 or the resolved IPv6; CIDR: contains
//     either of them (an IPv4 prefix never contains an IPv6 address and vice versa);
//     IP/CIDR rules never look at the name, domain rules never look at the IPs;
//   * all / * : matches every host;
//   * protoPort: "", "*", "*/*" any; tcp|udp restricts the protocol; "/N" one
//     port, "/A-B" the inclusive range, "/*" any port.
// Bounds (excluded by construction, counted with st.Excluded when the raw
// generator proposes them): port 0 in a rule, IPv4-mapped IPv6. Host names with
// a Punycode (xn--) label are not judged by the reference (it does not decode)
// but by the relation the statement does fix: any spelling (case, trailing dot)
// on the used rule set == the lower-case spelling on a fresh rule set.

import (
	"fmt"
	"net/netip"
	"strings"

	"pgregory.net/rapid"
)

const (
	v09KExact = iota
	v09KSuffix
	v09KWild
	v09KIP
	v09KCIDR
	v09KAll
)

var v09KindNames = []string{"exact", "suffix", "wildcard", "ip", "cidr", "all"}

type v09Rule struct {
	Ob      string     // canonical (lower-case) outbound name
	Kind    int        // v09K*
	Dom     string     // exact/suffix/wildcard: canonical pattern (lower-case, no trailing dot)
	Addr    netip.Addr // ip: the address; cidr: an address inside the prefix (host bits arbitrary)
	Bits    int        // cidr: number of significant leading bits
	Proto   int        // 0 both, 1 tcp, 2 udp
	AnyPort bool
	Lo, Hi  uint16     // inclusive, Lo >= 1 (when !AnyPort)
	Hijack  netip.Addr // zero value: none
	Text    string     // the rule as written in the file (one line)
}

type v09Query struct {
	Name    string     // as spelled by the caller (case, trailing dot)
	V4, V6  netip.Addr // zero value: not resolved
	V4Long  bool       // hand the IPv4 over in 16-byte net.IP form (what net.ParseIP returns)
	Proto   int        // 1 tcp, 2 udp
	Port    uint16
	Op      int  // engine level: 0 TCP, 1 UDP, 2 CheckUDP (Proto is derived from it)
	NilInfo bool // engine level: no ResolveInfo at all (only when V4 and V6 are unset)
}

// ---------------------------------------------------------------- reference

func v09Lower(s string) string {
	b := []byte(s)
	for i, c := range b {
		if c >= 'A' && c <= 'Z' {
			b[i] = c + ('a' - 'A')
		}
	}
	return string(b)
}

func v09NormName(s string) string {
	s = v09Lower(s)
	if strings.HasSuffix(s, ".") {
		s = s[:len(s)-1]
	}
	return s
}

// v09Glob: '*' matches any run of bytes (also empty, also dots). Iterative, no regexp.
func v09Glob(pat, s string) bool {
	p, i := 0, 0
	starP, starI := -1, 0
	for i < len(s) {
		switch {
		case p < len(pat) && pat[p] == '*':
			starP, starI = p, i
			p++
		case p < len(pat) && pat[p] == s[i]:
			p++
			i++
		case starP >= 0:
			starI++
			i = starI
			p = starP + 1
		default:
			return false
		}
	}
	for p < len(pat) && pat[p] == '*' {
		p++
	}
	return p == len(pat)
}

func v09InPrefix(base netip.Addr, bits int, a netip.Addr) bool {
	if !a.IsValid() || base.Is4() != a.Is4() {
		return false
	}
	nb, ab := base.AsSlice(), a.AsSlice()
	for i := 0; i < bits; i++ {
		if (nb[i/8]>>(7-uint(i%8)))&1 != (ab[i/8]>>(7-uint(i%8)))&1 {
			return false
		}
	}
	return true
}

func (r *v09Rule) matches(q *v09Query) bool {
	if r.Proto != 0 && r.Proto != q.Proto {
		return false
	}
	if !r.AnyPort && (q.Port < r.Lo || q.Port > r.Hi) {
		return false
	}
	switch r.Kind {
	case v09KAll:
		return true
	case v09KExact:
		return v09NormName(q.Name) == r.Dom
	case v09KSuffix:
		n := v09NormName(q.Name)
		return n == r.Dom || strings.HasSuffix(n, "."+r.Dom)
	case v09KWild:
		return v09Glob(r.Dom, v09NormName(q.Name))
	case v09KIP:
		return (q.V4.IsValid() && q.V4 == r.Addr) || (q.V6.IsValid() && q.V6 == r.Addr)
	case v09KCIDR:
		return v09InPrefix(r.Addr, r.Bits, q.V4) || v09InPrefix(r.Addr, r.Bits, q.V6)
	}
	return false
}

// v09First returns the index of the first matching rule (-1: none) and all matching indices.
func v09First(rules []v09Rule, q *v09Query) (int, []int) {
	first := -1
	var all []int
	for i := range rules {
		if rules[i].matches(q) {
			if first < 0 {
				first = i
			}
			all = append(all, i)
		}
	}
	return first, all
}

func (q *v09Query) Key() string {
	return fmt.Sprintf("%s|%v|%v|%d|%d", v09NormName(q.Name), q.V4, q.V6, q.Proto, q.Port)
}

func (q v09Query) String() string {
	ip := func(a netip.Addr) string {
		if !a.IsValid() {
			return "nil"
		}
		return a.String()
	}
	pr := "tcp"
	if q.Proto == 2 {
		pr = "udp"
	}
	x := ""
	if q.V4Long && q.V4.IsValid() {
		x = "(16-byte)"
	}
	name := q.Name
	if len(name) > 120 {
		name = fmt.Sprintf("%s...[%d bytes]...%s", name[:40], len(name), name[len(name)-50:])
	}
	return fmt.Sprintf("{name=%q v4=%s%s v6=%s %s/%d}", name, ip(q.V4), x, ip(q.V6), pr, q.Port)
}

// ----------------------------------------------------------------- universe

var v09Doms = []string{
	"example.com", "notexample.com", "sub.example.com", "a.sub.example.com",
	"example.com.evil.org", "example.org", "com", "example.co", "xample.com",
	"my-example.com", "example.net", "localhost",
	"xn--bcher-kva.example.com", // Punycode label: lookups of such names are checked for spelling/history invariance only
}

func v09A(s string) netip.Addr { return netip.MustParseAddr(s) }

var v09V4s = []netip.Addr{
	v09A("10.0.0.1"), v09A("10.0.0.2"), v09A("10.0.1.1"), v09A("10.128.0.1"), v09A("11.0.0.1"),
	v09A("192.168.1.1"), v09A("192.168.1.255"), v09A("127.0.0.1"), v09A("128.0.0.0"),
	v09A("0.0.0.0"), v09A("255.255.255.255"), v09A("8.8.8.8"),
}

var v09V6s = []netip.Addr{
	v09A("2001:db8::1"), v09A("2001:db8::2"), v09A("2001:db8:0:1::1"), v09A("2001:db8:8000::1"),
	v09A("2001:db9::1"), v09A("fe80::1"), v09A("::1"), v09A("::"), v09A("ff02::1"),
	v09A("2001:4860:4860::8888"), v09A("2001:db8::abcd:ef01"),
	v09A("::ffff:10.0.0.1"), // out of bounds: replaced + counted
}

var v09Ports = []uint16{1, 53, 79, 80, 81, 442, 443, 444, 999, 1000, 1001, 1999, 2000, 2001, 65534, 65535}

type v09Ctx struct {
	t  *rapid.T
	st *vStats
}

func (c *v09Ctx) n(lo, hi int, label string) int { return rapid.IntRange(lo, hi).Draw(c.t, label) }

func (c *v09Ctx) dom(label string) string {
	return v09Doms[c.n(0, len(v09Doms)-1, label)]
}

// v09HasACE: does the host name contain a Punycode ("xn--", any case) label? Such
// names are decoded by the matcher; the statement fixes only that their spelling
// (case, trailing dot) and the lookup history do not matter, so they are checked
// by that relation (v09CheckOne) and not against the reference evaluator.
func v09HasACE(name string) bool {
	for _, l := range strings.Split(v09Lower(name), ".") {
		if strings.HasPrefix(l, "xn--") {
			return true
		}
	}
	return false
}

// v09Witness builds, without any random draw, a lookup that rule r matches.
func v09Witness(r *v09Rule) v09Query {
	q := v09Query{Proto: 1, Port: 80}
	if r.Proto == 2 {
		q.Proto, q.Op = 2, 1
	}
	if !r.AnyPort {
		q.Port = r.Lo
	}
	switch r.Kind {
	case v09KExact:
		q.Name = r.Dom
	case v09KSuffix:
		q.Name = "w." + r.Dom
	case v09KWild:
		q.Name = strings.Trim(strings.ReplaceAll(r.Dom, "*", "w"), ".")
	case v09KIP, v09KCIDR:
		if r.Addr.Is4() {
			q.V4 = r.Addr
		} else {
			q.V6 = r.Addr
		}
	default:
		q.Name = "witness.test"
	}
	q.NilInfo = false
	return q
}

// v09LongLine makes one line of the file longer than 64 KiB without changing
// its meaning: how 0 a comment line in front of it, 1 blanks inside the
// parentheses, 2 trailing blanks, 3 a trailing comment.
func v09LongLine(file string, at, how int) string {
	lines := strings.Split(file, "\n")
	if len(lines) == 0 {
		return file
	}
	at %= len(lines)
	const n = 66000
	switch l := lines[at]; {
	case how == 0 || strings.TrimSpace(l) == "":
		lines[at] = "# " + strings.Repeat("long comment ", n/13) + "\n" + l
	case how == 1 && strings.Contains(l, "(") && !strings.HasPrefix(strings.TrimSpace(l), "#"):
		i := strings.Index(l, "(")
		lines[at] = l[:i+1] + strings.Repeat(" \t", n/2) + l[i+1:]
	case how == 2:
		lines[at] = l + strings.Repeat(" ", n)
	default:
		lines[at] = l + " #" + strings.Repeat("x", n)
	}
	return strings.Join(lines, "\n")
}

// v09Prefix builds a host-name prefix of exactly n bytes out of labels (<= 63 bytes each).
func v09Prefix(n int) string {
	b := make([]byte, n)
	for i := range b {
		b[i] = "pqrs"[(i/32)%4]
		if i%32 == 31 && i != n-1 {
			b[i] = '.'
		}
	}
	return string(b)
}

// longNames (drawn after everything else): 2-4 lookups whose host names share a
// prefix of 63/64/255/256/300/1000 bytes and differ only in the tail (tails the
// rules' suffix/wildcard/exact patterns tell apart), then the first one again.
// Plain ASCII names: judged by the reference like any other.
func (c *v09Ctx) longNames(rules []v09Rule, qs []v09Query) []v09Query {
	if c.n(0, 5, "longNames") != 0 {
		return nil
	}
	prefix := v09Prefix([]int{63, 64, 255, 256, 300, 1000}[c.n(0, 5, "longPrefix")])
	var tails []string
	for _, d := range v09Doms {
		if !v09HasACE(d) {
			tails = append(tails, d)
		}
	}
	for i := range rules {
		if k := rules[i].Kind; k == v09KExact || k == v09KSuffix || k == v09KWild {
			if w := v09Witness(&rules[i]); !v09HasACE(w.Name) && w.Name != "" {
				tails = append(tails, w.Name, "not"+w.Name)
			}
		}
	}
	base := v09Query{Proto: 1, Port: 80}
	if len(qs) > 0 {
		base = qs[c.n(0, len(qs)-1, "longBase")]
	}
	var out []v09Query
	for i, k := 0, c.n(2, 4, "longCount"); i < k; i++ {
		q := base
		q.Name = c.spellHost(prefix+"."+tails[c.n(0, len(tails)-1, "longTail")], "qSpell")
		out = append(out, q)
	}
	return append(out, out[0])
}

// v09Abbrev shortens over-long lines for messages.
func v09Abbrev(text string) string {
	lines := strings.Split(text, "\n")
	for i, l := range lines {
		if len(l) > 400 {
			lines[i] = fmt.Sprintf("%s...[line of %d bytes]...%s", l[:80], len(l), l[len(l)-80:])
		}
	}
	return strings.Join(lines, "\n")
}

func (c *v09Ctx) v4(label string) netip.Addr { return v09V4s[c.n(0, len(v09V4s)-1, label)] }

func (c *v09Ctx) okV6(a netip.Addr) netip.Addr {
	if a.Is4In6() {
		c.st.Excluded("IPv4-mapped IPv6 address")
		return v09V6s[0]
	}
	return a
}

func (c *v09Ctx) v6(label string) netip.Addr {
	return c.okV6(v09V6s[c.n(0, len(v09V6s)-1, label)])
}

func v09FlipBit(a netip.Addr, i int) netip.Addr {
	b := a.AsSlice()
	b[i/8] ^= 1 << (7 - uint(i%8))
	r, _ := netip.AddrFromSlice(b)
	return r
}

// spell returns a case variant of an ASCII string.
func (c *v09Ctx) spell(s, label string) string {
	switch c.n(0, 5, label) {
	case 0, 1, 2:
		return s
	case 3:
		return strings.ToUpper(s)
	case 4:
		b := []byte(s)
		for i := range b {
			if i%2 == 0 && b[i] >= 'a' && b[i] <= 'z' {
				b[i] -= 'a' - 'A'
			}
		}
		return string(b)
	default:
		b := []byte(s)
		up := true
		for i := range b {
			if up && b[i] >= 'a' && b[i] <= 'z' {
				b[i] -= 'a' - 'A'
			}
			up = b[i] == '.'
		}
		return string(b)
	}
}

func (c *v09Ctx) spellHost(s, label string) string {
	s = c.spell(s, label)
	if s != "" && c.n(0, 3, label+".dot") == 0 {
		s += "."
	}
	return s
}

func (c *v09Ctx) renderAddr(a netip.Addr, label string) string {
	if a.Is4() {
		return a.String()
	}
	switch c.n(0, 4, label) {
	case 0, 1, 2:
		return a.String()
	case 3:
		return strings.ToUpper(a.String())
	default:
		b := a.As16()
		parts := make([]string, 8)
		for i := range parts {
			parts[i] = fmt.Sprintf("%04X", uint16(b[2*i])<<8|uint16(b[2*i+1]))
		}
		return strings.Join(parts, ":")
	}
}

// ------------------------------------------------------------ rule generator

func (c *v09Ctx) wildcard() string {
	for try := 0; ; try++ {
		d := c.dom("wild.base")
		stars := c.n(1, 2, "wild.stars")
		p := d
		for s := 0; s < stars; s++ {
			// replace p[i:j] by '*' (i==j inserts a star: it then has to match the empty string)
			i := c.n(0, len(p), "wild.i")
			j := i
			switch c.n(0, 2, "wild.how") {
			case 0: // up to the end of the label
				for j < len(p) && p[j] != '.' {
					j++
				}
			case 1:
				j = c.n(i, len(p), "wild.j")
			}
			p = p[:i] + "*" + p[j:]
		}
		for strings.Contains(p, "**") {
			p = strings.ReplaceAll(p, "**", "*")
		}
		if p == "*" || strings.HasSuffix(p, ".") || strings.HasPrefix(p, ".") {
			if try < 4 {
				continue
			}
			return "*.example.com"
		}
		return p
	}
}

var v09Bits4 = []int{0, 1, 7, 8, 9, 15, 16, 17, 23, 24, 25, 30, 31, 32}
var v09Bits6 = []int{0, 1, 15, 16, 31, 32, 33, 47, 48, 63, 64, 65, 96, 112, 127, 128}

// genAddr draws the address pattern of a rule (kind + canonical value); the text is made by render.
func (c *v09Ctx) genAddr(r *v09Rule) {
	switch k := c.n(0, 11, "kind"); {
	case k <= 1:
		r.Kind, r.Dom = v09KExact, c.dom("dom")
	case k <= 3:
		r.Kind, r.Dom = v09KSuffix, c.dom("dom")
	case k <= 5:
		r.Kind, r.Dom = v09KWild, c.wildcard()
	case k == 6:
		r.Kind, r.Addr = v09KIP, c.v4("ip4")
	case k == 7:
		r.Kind, r.Addr = v09KIP, c.v6("ip6")
	case k == 8:
		r.Kind, r.Addr = v09KCIDR, c.v4("ip4")
		if c.n(0, 1, "bitsHow") == 0 {
			r.Bits = v09Bits4[c.n(0, len(v09Bits4)-1, "bits")]
		} else {
			r.Bits = c.n(0, 32, "bits")
		}
	case k == 9:
		r.Kind, r.Addr = v09KCIDR, c.v6("ip6")
		if c.n(0, 1, "bitsHow") == 0 {
			r.Bits = v09Bits6[c.n(0, len(v09Bits6)-1, "bits")]
		} else {
			r.Bits = c.n(0, 128, "bits")
		}
	default:
		r.Kind = v09KAll
	}
}

// genAction draws outbound, protocol, port range and hijack address.
func (c *v09Ctx) genAction(r *v09Rule, obs []string, hijack bool) {
	r.Ob = obs[c.n(0, len(obs)-1, "ob")]
	r.Proto = c.n(0, 2, "proto")
	port := func(label string) uint16 {
		i := c.n(-1, len(v09Ports)-1, label)
		if i < 0 {
			c.st.Excluded("port 0 in a rule (StartPort==0 doubles as 'any port')")
			return 1
		}
		return v09Ports[i]
	}
	r.AnyPort, r.Lo, r.Hi = false, 0, 0
	switch c.n(0, 5, "portKind") {
	case 0, 1:
		r.AnyPort = true
	case 2, 3:
		r.Lo = port("port")
		r.Hi = r.Lo
	default:
		a, b := port("portLo"), port("portHi")
		if a > b {
			a, b = b, a
		}
		r.Lo, r.Hi = a, b
	}
	r.Hijack = netip.Addr{}
	if hijack && c.n(0, 3, "hijack?") == 0 {
		if c.n(0, 1, "hijackFam") == 0 {
			r.Hijack = c.v4("hijack4")
		} else {
			r.Hijack = c.v6("hijack6")
		}
	}
}

// render writes the rule as one line of an ACL file (spelling, white space and comment drawn).
func (c *v09Ctx) render(r *v09Rule) {
	var addrText string
	switch r.Kind {
	case v09KExact, v09KWild:
		addrText = c.spellHost(r.Dom, "domSpell")
	case v09KSuffix:
		addrText = "suffix:" + c.spellHost(r.Dom, "domSpell")
	case v09KIP:
		addrText = c.renderAddr(r.Addr, "ipSpell")
	case v09KCIDR:
		addrText = fmt.Sprintf("%s/%d", c.renderAddr(r.Addr, "ipSpell"), r.Bits)
	default:
		addrText = []string{"all", "*"}[c.n(0, 1, "allSpell")]
	}
	protoTok := []string{"*", "tcp", "udp"}[r.Proto]
	if r.Proto != 0 {
		protoTok = c.spell(protoTok, "protoSpell")
	}
	var pp string
	switch {
	case r.AnyPort && r.Proto == 0:
		pp = []string{"", "*", "*/*"}[c.n(0, 2, "ppSpell")]
	case r.AnyPort:
		pp = []string{protoTok, protoTok + "/*"}[c.n(0, 1, "ppSpell")]
	case r.Lo == r.Hi && c.n(0, 3, "ppSpell") != 0:
		pp = fmt.Sprintf("%s/%d", protoTok, r.Lo)
	default:
		pp = fmt.Sprintf("%s/%d-%d", protoTok, r.Lo, r.Hi)
	}
	sp := func(label string) string { return []string{"", "", " ", "  ", "\t"}[c.n(0, 4, label)] }
	var sb strings.Builder
	sb.WriteString(sp("ws0"))
	sb.WriteString(c.spell(r.Ob, "obSpell"))
	sb.WriteString(sp("ws1"))
	sb.WriteString("(" + sp("ws2") + addrText + sp("ws3"))
	if r.Hijack.IsValid() {
		if pp == "" {
			pp = []string{"*", " "}[c.n(0, 1, "ppEmpty")] // the middle field has to be there; blank == any
		}
		sb.WriteString("," + sp("ws4") + pp + sp("ws5") + "," + sp("ws6") + c.renderAddr(r.Hijack, "hijackSpell") + sp("ws7"))
	} else if pp != "" {
		sb.WriteString("," + sp("ws4") + pp + sp("ws5"))
	}
	sb.WriteString(")" + sp("ws8"))
	if c.n(0, 5, "comment") == 0 {
		sb.WriteString(" # " + []string{"note", "reject(all)", "x(1.2.3.4,tcp/80)"}[c.n(0, 2, "commentText")])
	}
	r.Text = sb.String()
}

func (c *v09Ctx) genRule(obs []string, hijack bool) v09Rule {
	var r v09Rule
	c.genAddr(&r)
	c.genAction(&r, obs, hijack)
	c.render(&r)
	return r
}

// randHostBits keeps the first `bits` bits of a and draws the rest.
func (c *v09Ctx) randHostBits(a netip.Addr, bits int, label string) netip.Addr {
	b := a.AsSlice()
	rnd := rapid.SliceOfN(rapid.Byte(), len(b), len(b)).Draw(c.t, label)
	for i := bits; i < len(b)*8; i++ {
		m := byte(1) << (7 - uint(i%8))
		b[i/8] = b[i/8]&^m | rnd[i/8]&m
	}
	r, _ := netip.AddrFromSlice(b)
	if !r.Is4() && r.Is4In6() {
		return a
	}
	return r
}

func v09SetHostBits(a netip.Addr, bits int, one bool) netip.Addr {
	b := a.AsSlice()
	for i := bits; i < len(b)*8; i++ {
		m := byte(1) << (7 - uint(i%8))
		if one {
			b[i/8] |= m
		} else {
			b[i/8] &^= m
		}
	}
	r, _ := netip.AddrFromSlice(b)
	return r
}

// ipRun: 2-6 consecutive IP/CIDR rules with one and the same action whose
// networks are nested / overlapping / duplicated / single addresses inside a
// network, in sorted or unsorted order (what a rule-merging optimiser would
// fold into one matcher), followed by a wider network under another action.
func (c *v09Ctx) ipRun(obs []string, hijack bool) []v09Rule {
	var act v09Rule
	c.genAction(&act, obs, hijack)
	var base netip.Addr
	var outer int
	if c.n(0, 2, "runFam") != 0 {
		base = c.v4("runBase4")
		outer = []int{0, 1, 7, 8, 12, 16, 20, 24}[c.n(0, 7, "runOuter")]
	} else {
		base = c.v6("runBase6")
		outer = []int{0, 1, 16, 32, 48, 64, 96, 120}[c.n(0, 7, "runOuter")]
	}
	blen := base.BitLen()
	n := c.n(2, 6, "runLen")
	type member struct {
		a    netip.Addr
		bits int
		ip   bool
	}
	ms := []member{{base, outer, false}}
	for len(ms) < n {
		var m member
		switch c.n(0, 6, "runMember") {
		case 0, 1, 2: // a network inside the outer one
			m = member{c.randHostBits(base, outer, "runBits"), c.n(outer+1, blen, "runInner"), false}
		case 3: // a single address inside the outer one
			m = member{c.randHostBits(base, outer, "runBits"), blen, true}
		case 4: // a duplicate
			m = ms[c.n(0, len(ms)-1, "runDup")]
		case 5: // nested one level deeper / a single address inside an earlier member
			p := ms[c.n(0, len(ms)-1, "runParent")]
			if p.bits < blen {
				m = member{c.randHostBits(p.a, p.bits, "runBits"), c.n(p.bits+1, blen, "runInner"), c.n(0, 2, "runIP") == 0}
				if m.ip {
					m.bits = blen
				}
			} else {
				m = p
			}
		default: // possibly outside: overlaps or is disjoint
			m = member{c.randHostBits(base, c.n(0, outer, "runKeep"), "runBits"), c.n(0, blen, "runInner"), false}
		}
		ms = append(ms, m)
	}
	switch c.n(0, 2, "runOrder") {
	case 0: // as generated: the enclosing network first
	case 1: // sorted by address, widest first on ties
		for i := 1; i < len(ms); i++ {
			for j := i; j > 0 && (ms[j].a.Less(ms[j-1].a) || (ms[j].a == ms[j-1].a && ms[j].bits < ms[j-1].bits)); j-- {
				ms[j], ms[j-1] = ms[j-1], ms[j]
			}
		}
	default:
		perm := rapid.Permutation(ms).Draw(c.t, "runPerm")
		ms = perm
	}
	var out []v09Rule
	for _, m := range ms {
		r := act
		r.Addr, r.Bits, r.Kind = m.a, m.bits, v09KCIDR
		if m.ip {
			r.Kind, r.Bits = v09KIP, 0
		}
		c.render(&r)
		out = append(out, r)
	}
	// a wider network under a different action right behind the run
	var w v09Rule
	c.genAction(&w, obs, hijack)
	if w.Ob == act.Ob && len(obs) > 1 {
		for _, o := range obs {
			if o != act.Ob {
				w.Ob = o
				break
			}
		}
	}
	w.Kind, w.Addr, w.Bits = v09KCIDR, base, c.n(0, outer, "runWider")
	if c.n(0, 2, "runWiderAny") != 0 {
		w.Proto, w.AnyPort, w.Lo, w.Hi = 0, true, 0, 0
	}
	c.render(&w)
	return append(out, w)
}

// domRun: 2-6 consecutive domain rules of one family (d, sub.d, suffix:d, *.d, *d, notd ...) under one action.
func (c *v09Ctx) domRun(obs []string, hijack bool) []v09Rule {
	var act v09Rule
	c.genAction(&act, obs, hijack)
	d := c.dom("runDom")
	type pat struct {
		kind int
		dom  string
	}
	fam := []pat{{v09KExact, d}, {v09KSuffix, d}, {v09KWild, "*." + d}, {v09KWild, "*" + d}, {v09KExact, "sub." + d},
		{v09KSuffix, "sub." + d}, {v09KExact, "not" + d}, {v09KExact, "www." + d}, {v09KWild, "*.sub." + d}, {v09KWild, "w*." + d}}
	if i := strings.IndexByte(d, '.'); i >= 0 {
		fam = append(fam, pat{v09KSuffix, d[i+1:]}, pat{v09KExact, d[i+1:]})
	}
	n := c.n(2, 6, "runLen")
	var out []v09Rule
	for i := 0; i < n; i++ {
		p := fam[c.n(0, len(fam)-1, "runPat")]
		r := act
		r.Kind, r.Dom = p.kind, p.dom
		c.render(&r)
		out = append(out, r)
	}
	return out
}

// genRules: single random rules mixed with the motifs an optimiser might
// exploit (runs of adjacent same-action rules, a port-limited "all" early in
// the list, a catch-all at the end).
func (c *v09Ctx) genRules(obs []string, hijack bool, lo, hi int) []v09Rule {
	n := c.n(lo, hi, "nrules")
	var rules []v09Rule
	for len(rules) < n {
		switch m := c.n(0, 11, "motif"); {
		case m <= 1 && n-len(rules) >= 3:
			rules = append(rules, c.ipRun(obs, hijack)...)
		case m == 2 && n-len(rules) >= 2:
			rules = append(rules, c.domRun(obs, hijack)...)
		default:
			rules = append(rules, c.genRule(obs, hijack))
		}
	}
	if len(rules) > hi+4 {
		rules = rules[:hi+4]
	}
	if len(rules) >= 2 && c.n(0, 5, "earlyAll") == 0 { // a port-limited "all" early in the list
		var r v09Rule
		c.genAction(&r, obs, hijack)
		r.Kind = v09KAll
		if r.AnyPort {
			r.AnyPort, r.Lo, r.Hi = false, 80, 443
		}
		c.render(&r)
		i := c.n(0, 1, "earlyAllAt")
		rules = append(rules[:i], append([]v09Rule{r}, rules[i:]...)...)
	}
	if len(rules) >= 1 && c.n(0, 5, "finalAll") == 0 { // catch-all at the end
		var r v09Rule
		c.genAction(&r, obs, hijack)
		r.Kind, r.Proto, r.AnyPort, r.Lo, r.Hi = v09KAll, 0, true, 0, 0
		c.render(&r)
		rules = append(rules, r)
	}
	return rules
}

// renderFile joins the lines, sprinkling blank and comment-only lines.
func (c *v09Ctx) renderFile(rules []v09Rule) string {
	var sb strings.Builder
	for i := range rules {
		switch c.n(0, 7, "filler") {
		case 0:
			sb.WriteString("\n")
		case 1:
			sb.WriteString("# ob1(all)\n")
		}
		sb.WriteString(rules[i].Text)
		sb.WriteString("\n")
	}
	return sb.String()
}

// ----------------------------------------------------------- query generator

func (c *v09Ctx) portCandidates(rules []v09Rule) []uint16 {
	ps := append([]uint16(nil), v09Ports...)
	for i := range rules {
		if rules[i].AnyPort {
			continue
		}
		for _, p := range []int{int(rules[i].Lo) - 1, int(rules[i].Lo) + 1, int(rules[i].Hi) - 1, int(rules[i].Hi) + 1} {
			if p >= 1 && p <= 65535 {
				ps = append(ps, uint16(p))
			}
		}
	}
	return ps
}

// nearName builds a host name that matches, or just misses, a domain pattern.
func (c *v09Ctx) nearName(r *v09Rule) string {
	d := r.Dom
	if r.Kind == v09KWild {
		fill := []string{"", "x", "www", "a.b", "not", ".", "sub.example"}
		var sb strings.Builder
		for i := 0; i < len(d); i++ {
			if d[i] == '*' {
				sb.WriteString(fill[c.n(0, len(fill)-1, "fill")])
			} else {
				sb.WriteByte(d[i])
			}
		}
		d = sb.String()
		d = strings.Trim(d, ".")
		for strings.Contains(d, "..") {
			d = strings.ReplaceAll(d, "..", ".")
		}
		if d == "" {
			d = "com"
		}
	}
	switch c.n(0, 9, "near") {
	case 0, 1, 2:
		return d
	case 3:
		return "not" + d
	case 4:
		return "www." + d
	case 5:
		return "a.b." + d
	case 6:
		return d + ".evil.org"
	case 7:
		if len(d) > 1 && d[1] != '.' {
			return d[1:]
		}
		return d
	case 8:
		return d + "x"
	default:
		return "x" + d
	}
}

func (c *v09Ctx) nearAddr(r *v09Rule) netip.Addr {
	a := r.Addr
	blen := a.BitLen()
	switch r.Kind {
	case v09KIP:
		if c.n(0, 2, "nearIP") == 0 {
			a = v09FlipBit(a, blen-1-c.n(0, 7, "flip"))
		}
	case v09KCIDR:
		switch c.n(0, 9, "nearNet") {
		case 0: // just outside: the last significant bit differs
			if r.Bits > 0 {
				a = v09FlipBit(a, r.Bits-1)
			}
		case 1: // just inside: the first insignificant bit differs
			if r.Bits < blen {
				a = v09FlipBit(a, r.Bits)
			}
		case 2: // some host bit
			if r.Bits < blen {
				a = v09FlipBit(a, c.n(r.Bits, blen-1, "flip"))
			}
		case 3, 4, 5: // anywhere inside (inside this network, most likely in none of the narrower ones)
			a = c.randHostBits(a, r.Bits, "hostBits")
		case 6: // first address of the network
			a = v09SetHostBits(a, r.Bits, false)
		case 7: // last address of the network
			a = v09SetHostBits(a, r.Bits, true)
		case 8: // the address before the first / after the last one
			if c.n(0, 1, "beforeAfter") == 0 {
				if p := v09SetHostBits(a, r.Bits, false).Prev(); p.IsValid() {
					a = p
				}
			} else if p := v09SetHostBits(a, r.Bits, true).Next(); p.IsValid() {
				a = p
			}
		}
	}
	if !a.Is4() {
		a = c.okV6(a)
	}
	return a
}

func (c *v09Ctx) freshQuery(rules []v09Rule, ports []uint16) v09Query {
	var q v09Query
	var aim *v09Rule
	if len(rules) > 0 && c.n(0, 9, "aimed") < 6 {
		aim = &rules[c.n(0, len(rules)-1, "aimAt")]
	}
	haveName := false
	if aim != nil {
		switch aim.Kind {
		case v09KExact, v09KSuffix, v09KWild:
			q.Name, haveName = c.nearName(aim), true
		case v09KIP, v09KCIDR:
			a := c.nearAddr(aim)
			if a.Is4() {
				q.V4 = a
			} else {
				q.V6 = a
			}
		}
	}
	// the rest of the host comes from the universe
	if !q.V4.IsValid() && c.n(0, 1, "has4") == 0 {
		q.V4 = c.v4("q4")
	}
	if !q.V6.IsValid() && c.n(0, 1, "has6") == 0 {
		q.V6 = c.v6("q6")
	}
	if !haveName {
		switch k := c.n(0, 9, "nameKind"); {
		case k == 0 && (q.V4.IsValid() || q.V6.IsValid()):
			q.Name = "" // address-only request
		case k == 1 && q.V4.IsValid():
			q.Name = q.V4.String() // IP literal as host, as the resolver stage leaves it
		case k == 2 && q.V6.IsValid():
			q.Name = q.V6.String()
		default:
			q.Name = c.dom("qdom")
		}
	}
	q.Name = c.spellHost(q.Name, "qSpell")
	q.V4Long = c.n(0, 1, "v4long") == 0
	// protocol / port
	q.Op = c.n(0, 2, "op")
	q.Proto = 1
	if q.Op != 0 {
		q.Proto = 2
	}
	if aim != nil && !aim.AnyPort && c.n(0, 3, "aimPort") != 0 {
		cands := []int{int(aim.Lo) - 1, int(aim.Lo), int(aim.Lo) + 1, int(aim.Hi) - 1, int(aim.Hi), int(aim.Hi) + 1, (int(aim.Lo) + int(aim.Hi)) / 2}
		p := cands[c.n(0, len(cands)-1, "portNear")]
		if p < 1 {
			p = 1
		}
		if p > 65535 {
			p = 65535
		}
		q.Port = uint16(p)
	} else {
		q.Port = ports[c.n(0, len(ports)-1, "qport")]
	}
	q.NilInfo = !q.V4.IsValid() && !q.V6.IsValid() && c.n(0, 1, "nilInfo") == 0
	return q
}

// mutate changes exactly one component of an earlier query (cache-key neighbours).
func (c *v09Ctx) mutate(q v09Query, ports []uint16) v09Query {
	switch c.n(0, 5, "mutWhat") {
	case 0: // other spelling of the same name: same decision, same cache line
		q.Name = c.spellHost(v09NormName(q.Name), "qSpell")
	case 1: // other name (keep IP literals out: they must agree with the IP fields)
		q.Name = c.spellHost(c.dom("qdom"), "qSpell")
	case 2:
		if q.V4.IsValid() && c.n(0, 1, "drop") == 0 {
			q.V4 = netip.Addr{}
		} else {
			q.V4 = c.v4("q4")
		}
		q.Name = c.fixLiteral(q)
	case 3:
		if q.V6.IsValid() && c.n(0, 1, "drop") == 0 {
			q.V6 = netip.Addr{}
		} else {
			q.V6 = c.v6("q6")
		}
		q.Name = c.fixLiteral(q)
	case 4:
		q.Proto = 3 - q.Proto
		if q.Proto == 1 {
			q.Op = 0
		} else {
			q.Op = 1 + c.n(0, 1, "udpOp")
		}
	default:
		q.Port = ports[c.n(0, len(ports)-1, "qport")]
	}
	q.NilInfo = !q.V4.IsValid() && !q.V6.IsValid() && q.NilInfo
	return q
}

// fixLiteral keeps the precondition "an IP-literal host name agrees with the resolved address".
func (c *v09Ctx) fixLiteral(q v09Query) string {
	if a, err := netip.ParseAddr(v09NormName(q.Name)); err == nil {
		if (a.Is4() && a != q.V4) || (!a.Is4() && a != q.V6) {
			return "example.com"
		}
	}
	return q.Name
}

func (c *v09Ctx) genQueries(rules []v09Rule, lo, hi int, repeats bool) []v09Query {
	ports := c.portCandidates(rules)
	n := c.n(lo, hi, "nqueries")
	qs := make([]v09Query, 0, n)
	for i := 0; i < n; i++ {
		mode := 0
		if i > 0 {
			mode = c.n(0, 9, "qmode")
		}
		switch {
		case mode <= 3 || (!repeats && mode >= 7):
			qs = append(qs, c.freshQuery(rules, ports))
		case mode <= 6:
			qs = append(qs, c.mutate(qs[c.n(0, i-1, "mutOf")], ports))
		default:
			q := qs[c.n(0, i-1, "repeatOf")]
			if c.n(0, 1, "respell") == 0 {
				if _, err := netip.ParseAddr(v09NormName(q.Name)); err != nil { // leave literals alone
					q.Name = c.spellHost(v09NormName(q.Name), "qSpell")
				}
			}
			q.V4Long = c.n(0, 1, "v4long") == 0
			qs = append(qs, q)
		}
	}
	return qs
}

// ------------------------------------------------------- case classification

type v09Shape struct {
	repeatHit, repeatEvicted, multiDiff, respelledRepeat bool
	distinct                                             int
}

// v09Analyse: for an LRU of capacity capN an entry is gone exactly when >= capN
// distinct other keys were used since its last use.
func v09Analyse(qs []v09Query, capN int) v09Shape {
	var sh v09Shape
	keys := make([]string, len(qs))
	last := map[string]int{}
	for i := range qs {
		keys[i] = qs[i].Key()
		if j, ok := last[keys[i]]; ok {
			seen := map[string]struct{}{}
			for k := j + 1; k < i; k++ {
				seen[keys[k]] = struct{}{}
			}
			if len(seen) >= capN {
				sh.repeatEvicted = true
			} else {
				sh.repeatHit = true
				if qs[i].Name != qs[j].Name {
					sh.respelledRepeat = true
				}
			}
		}
		last[keys[i]] = i
	}
	sh.distinct = len(last)
	return sh
}

func v09RenderCase(file string, capN int, qs []v09Query, upto int) string {
	var sb strings.Builder
	fmt.Fprintf(&sb, "cache=%d rules:\n%s", capN, v09Abbrev(file))
	sb.WriteString("queries:")
	start := 0
	if upto > 40 {
		start = upto - 40
		fmt.Fprintf(&sb, " (... %d earlier)", start)
	}
	for i := start; i <= upto && i < len(qs); i++ {
		fmt.Fprintf(&sb, " #%d%v", i, qs[i])
	}
	return sb.String()
}
