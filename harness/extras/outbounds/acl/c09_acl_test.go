package acl

// C09 at the rule-set level: ParseTextRules + Compile + Match against the
// reference evaluator of c09_model_test.go, on every query of a sequence
// (cache hits, hits under another spelling, re-evaluations after eviction).
// Only the exported API of the package is used.

import (
	"fmt"
	"net"
	"net/netip"
	"strings"
	"testing"

	"pgregory.net/rapid"
)

var v09ObNames = []string{"ob1", "ob2", "ob3", "direct", "reject"}

func v09ObMap() map[string]int {
	m := map[string]int{}
	for i, n := range v09ObNames {
		m[n] = i + 1 // 0 is Compile's "no rule matched"
	}
	return m
}

func v09NetIP(a netip.Addr, long bool) net.IP {
	if !a.IsValid() {
		return nil
	}
	if a.Is4() && long {
		b := a.As16()
		return net.IP(b[:])
	}
	return net.IP(a.AsSlice())
}

func v09SameIP(got net.IP, want netip.Addr) bool {
	if got == nil {
		return !want.IsValid()
	}
	g, ok := netip.AddrFromSlice(got)
	return ok && want.IsValid() && g.Unmap() == want
}

func v09HostInfo(q *v09Query) HostInfo {
	return HostInfo{Name: q.Name, IPv4: v09NetIP(q.V4, q.V4Long), IPv6: v09NetIP(q.V6, false)}
}

func v09Proto(q *v09Query) Protocol {
	if q.Proto == 2 {
		return ProtocolUDP
	}
	return ProtocolTCP
}

// v09Build parses and compiles a generated rule file. The statement quantifies
// over rule lists the parser accepts; a rejection of a line of the documented
// form outbound(address[,protoPort[,hijack]]) means the harness grammar and the
// parser disagree, which is not something this property can decide. (A parser
// that accepts the file but returns fewer rules is not excused: the lookups
// decide, and every case asks one witness lookup per rule.)
func v09Build(file string, cache int) CompiledRuleSet[int] {
	trs, err := ParseTextRules(file)
	if err != nil {
		vInconclusive(fmt.Sprintf("C09 harness grammar produced a rule file the parser rejects: %v\n%s", err, v09Abbrev(file)))
	}
	rs, err := Compile[int](trs, v09ObMap(), cache, nil)
	if err != nil {
		vInconclusive(fmt.Sprintf("C09 harness grammar produced a rule file the compiler rejects: %v\n%s", err, v09Abbrev(file)))
	}
	return rs
}

// v09CheckOne compares one lookup with the reference; returns "" or the violation text.
// Names with a Punycode label (first == -2) are compared with the lower-case,
// dot-less spelling of the same lookup on a fresh rule set instead.
func v09CheckOne(rs CompiledRuleSet[int], fresh func() CompiledRuleSet[int], rules []v09Rule, obm map[string]int, q *v09Query) (string, int, []int) {
	gotOb, gotHijack := rs.Match(v09HostInfo(q), v09Proto(q), q.Port)
	if v09HasACE(q.Name) {
		canon := *q
		canon.Name = v09NormName(q.Name)
		wantOb, wantHijack := fresh().Match(v09HostInfo(&canon), v09Proto(&canon), canon.Port)
		if gotOb != wantOb || !gotHijack.Equal(wantHijack) {
			return fmt.Sprintf("Match%v returned (outbound=%d, hijack=%v) but the same lookup spelled %q on a fresh rule set returns (outbound=%d, hijack=%v): host names must compare case-insensitively, ignoring a trailing dot, independent of history",
				*q, gotOb, gotHijack, canon.Name, wantOb, wantHijack), -2, nil
		}
		return "", -2, nil
	}
	first, all := v09First(rules, q)
	wantOb, wantHijack, why := 0, netip.Addr{}, "no rule matches -> default (zero outbound)"
	if first >= 0 {
		wantOb, wantHijack = obm[rules[first].Ob], rules[first].Hijack
		why = fmt.Sprintf("first matching rule is #%d %q", first, v09Abbrev(strings.TrimSpace(rules[first].Text)))
	}
	if gotOb != wantOb || !v09SameIP(gotHijack, wantHijack) {
		return fmt.Sprintf("Match%v returned (outbound=%d, hijack=%v), want (outbound=%d, hijack=%v): %s", *q, gotOb, gotHijack, wantOb, wantHijack, why), first, all
	}
	return "", first, all
}

func v09Classes(rules []v09Rule, qs []v09Query, firsts []int, sh v09Shape, capN int) []string {
	seen := map[string]bool{}
	add := func(s string) { seen[s] = true }
	add(fmt.Sprintf("cache=%d", capN))
	for i, f := range firsts {
		if f == -2 {
			add("query:punycode-name(spelling/history invariance)")
		} else if f < 0 {
			add("decided:default")
		} else {
			add("decided:" + v09KindNames[rules[f].Kind])
			if rules[f].Hijack.IsValid() {
				add("decided:with-hijack")
			}
			if f > 0 {
				add("decided:by-later-rule")
			}
		}
		if qs[i].Name != "" && qs[i].Name != v09NormName(qs[i].Name) {
			add("query:case-or-dot-variant")
		}
		if _, err := netip.ParseAddr(v09NormName(qs[i].Name)); err == nil {
			add("query:ip-literal-host")
		}
	}
	if sh.repeatHit {
		add("repeat:cache-hit")
	}
	if sh.respelledRepeat {
		add("repeat:hit-under-other-spelling")
	}
	if sh.repeatEvicted {
		add("repeat:after-eviction")
	}
	if sh.multiDiff {
		add("query-matched-by>=2-rules-with-different-results")
	}
	if len(rules) == 0 {
		add("empty-rule-list")
	}
	out := make([]string, 0, len(seen))
	for _, k := range []string{"cache=1", "cache=2", "cache=4", "cache=1024", "decided:default", "decided:exact", "decided:suffix",
		"decided:wildcard", "decided:ip", "decided:cidr", "decided:all", "decided:with-hijack", "decided:by-later-rule",
		"query:case-or-dot-variant", "query:ip-literal-host", "query:punycode-name(spelling/history invariance)", "file:line>64KiB", "repeat:cache-hit", "repeat:hit-under-other-spelling",
		"repeat:after-eviction", "query-matched-by>=2-rules-with-different-results", "empty-rule-list"} {
		if seen[k] {
			out = append(out, k)
		}
	}
	return out
}

func v09MultiDiff(rules []v09Rule, all []int) bool {
	for _, i := range all[1:] {
		if rules[i].Ob != rules[all[0]].Ob || rules[i].Hijack != rules[all[0]].Hijack {
			return true
		}
	}
	return false
}

func TestVerifC09_Match(t *testing.T) {
	st := newVStats("TestVerifC09_Match")
	defer st.Flush()
	obm := v09ObMap()
	rapid.Check(t, func(rt *rapid.T) {
		c := &v09Ctx{t: rt, st: st}
		rules := c.genRules(v09ObNames, true, 0, 12)
		file := c.renderFile(rules)
		capN := rapid.SampledFrom([]int{1, 2, 4, 1024}).Draw(rt, "cache")
		qs := c.genQueries(rules, 5, 60, true)
		for i := range rules { // one lookup per rule that this rule matches (no draws): a dropped rule shows
			qs = append(qs, v09Witness(&rules[i]))
		}
		long := c.n(0, 39, "longLine") == 0 // drawn last so earlier draws keep their meaning
		if long {
			file = v09LongLine(file, c.n(0, 40, "longAt"), c.n(0, 3, "longHow"))
		}
		ln := c.longNames(rules, qs) // drawn after everything else
		qs = append(qs, ln...)
		rs := v09Build(file, capN)
		fresh := func() CompiledRuleSet[int] { return v09Build(file, capN) }
		sh := v09Analyse(qs, capN)
		firsts := make([]int, 0, len(qs))
		fail := ""
		for i := range qs {
			msg, first, all := v09CheckOne(rs, fresh, rules, obm, &qs[i])
			firsts = append(firsts, first)
			if len(all) > 1 && v09MultiDiff(rules, all) {
				sh.multiDiff = true
			}
			if msg != "" {
				fail = fmt.Sprintf("query #%d: %s\n%s", i, msg, v09RenderCase(file, capN, qs, i))
				break
			}
		}
		if long {
			st.Class("file:line>64KiB")
		}
		if ln != nil {
			st.Class("query:long-names-sharing-a-prefix")
		}
		nt := sh.repeatEvicted && sh.multiDiff
		st.Case(nt, v09Abbrev(file)+"\x00"+v09Keys(qs), v09Classes(rules, qs[:len(firsts)], firsts, sh, capN), func() string {
			return v09RenderCase(file, capN, qs, len(qs)-1)
		})
		if fail != "" {
			rt.Fatalf("C09: %s", fail)
		}
	})
}

func v09Keys(qs []v09Query) string {
	var sb strings.Builder
	for i := range qs {
		sb.WriteString(qs[i].Key())
		sb.WriteByte(';')
	}
	return sb.String()
}

// TestVerifC09_Grid is the deterministic backbone: a few fixed rule files that
// use every pattern kind (and the motifs a rule-merging optimiser would exploit:
// runs of adjacent same-action nested / duplicated / unsorted networks, a
// port-limited "all" first, a catch-all last), asked over the full grid of a
// small universe of hosts x protocols x boundary ports, in five passes whose
// innermost loop varies a different component of the lookup key (so neighbours
// in time differ in exactly the component a broken cache key would drop), once
// per cache size.
func TestVerifC09_Grid(t *testing.T) {
	st := newVStats("TestVerifC09_Grid")
	defer st.Flush()
	type rl = v09Rule
	a := v09A
	type grid struct {
		rules []v09Rule
		names []string
		v4s   []netip.Addr
		v6s   []netip.Addr
		ports []uint16
		pre   string // text in front of the rules
	}
	names := []string{"", "example.com", "EXAMPLE.COM.", "notexample.com", "sub.example.com", "Sub.Example.Com", "com", "example.co", "example.com.evil.org"}
	v4s := []netip.Addr{{}, a("10.0.0.1"), a("10.0.1.1"), a("10.0.2.1")}
	v6s := []netip.Addr{{}, a("2001:db8::1"), a("2001:db8:8000::1"), a("2001:db8:7fff::1")}
	ports := []uint16{1, 52, 53, 54, 79, 80, 81, 443, 999, 1000, 1001, 1999, 2000, 2001, 65535}
	// run(ob, proto, hijack, nets...) = adjacent rules with one action
	run := func(ob string, proto int, lo, hi uint16, hijack string, nets ...string) []v09Rule {
		var out []v09Rule
		for _, n := range nets {
			r := rl{Ob: ob, Proto: proto, AnyPort: lo == 0, Lo: lo, Hi: hi}
			pp := []string{"*", "tcp", "udp"}[proto]
			if lo != 0 {
				pp += fmt.Sprintf("/%d-%d", lo, hi)
			}
			if p, err := netip.ParsePrefix(n); err == nil {
				r.Kind, r.Addr, r.Bits = v09KCIDR, p.Addr(), p.Bits()
			} else {
				r.Kind, r.Addr = v09KIP, a(n)
			}
			r.Text = fmt.Sprintf("%s(%s, %s", ob, n, pp)
			if hijack != "" {
				r.Hijack = a(hijack)
				r.Text += ", " + hijack
			}
			r.Text += ")"
			out = append(out, r)
		}
		return out
	}
	cat := func(parts ...[]v09Rule) []v09Rule {
		var out []v09Rule
		for _, p := range parts {
			out = append(out, p...)
		}
		return out
	}
	one := func(r v09Rule) []v09Rule { return []v09Rule{r} }
	nets4 := []netip.Addr{{}, a("10.30.0.1"), a("10.10.0.1"), a("10.20.30.40"), a("10.20.30.41"), a("10.255.255.255"), a("10.0.0.0"),
		a("11.0.0.0"), a("9.255.255.255"), a("10.10.255.255"), a("10.11.0.0"), a("10.15.0.1"), a("192.168.0.1"), a("0.0.0.0"), a("255.255.255.255")}
	nets6 := []netip.Addr{{}, a("2001:db8:30::1"), a("2001:db8:10::1"), a("2001:db8:20::1"), a("2001:db8:20::2"), a("2001:db8:15::"),
		a("2001:db8:ffff:ffff:ffff:ffff:ffff:ffff"), a("2001:db9::"), a("2001:db7:ffff:ffff:ffff:ffff:ffff:ffff"), a("::"), a("ffff:ffff:ffff:ffff:ffff:ffff:ffff:ffff")}
	files := []grid{
		{rules: []v09Rule{
			rl{Ob: "ob1", Kind: v09KExact, Dom: "example.com", Proto: 1, Lo: 80, Hi: 80, Text: "ob1(EXAMPLE.com., tcp/80)"},
			rl{Ob: "ob2", Kind: v09KSuffix, Dom: "example.com", Proto: 2, AnyPort: true, Text: "ob2(suffix:example.com, udp)"},
			rl{Ob: "ob3", Kind: v09KWild, Dom: "*.example.com", Proto: 0, Lo: 1000, Hi: 2000, Hijack: a("8.8.8.8"), Text: "ob3(*.Example.COM, */1000-2000, 8.8.8.8)"},
			rl{Ob: "reject", Kind: v09KIP, Addr: a("10.0.0.1"), Proto: 0, Lo: 443, Hi: 443, Text: "reject(10.0.0.1, */443)"},
			rl{Ob: "direct", Kind: v09KCIDR, Addr: a("2001:db8::"), Bits: 33, Proto: 1, AnyPort: true, Hijack: a("2001:db8::2"), Text: "Direct (2001:DB8::/33, TCP/*, 2001:db8::2)"},
			rl{Ob: "ob1", Kind: v09KCIDR, Addr: a("10.0.0.0"), Bits: 23, Proto: 2, Lo: 53, Hi: 53, Text: "ob1(10.0.0.0/23,udp/53)"},
			rl{Ob: "ob2", Kind: v09KAll, Proto: 1, Lo: 2000, Hi: 65535, Text: "ob2(all,tcp/2000-65535)"},
		}, names: names, v4s: v4s, v6s: v6s, ports: ports},
		{rules: []v09Rule{
			rl{Ob: "ob3", Kind: v09KWild, Dom: "*example.c*", Proto: 2, Lo: 1, Hi: 79, Text: "ob3(*example.c*,udp/1-79)"},
			rl{Ob: "ob1", Kind: v09KIP, Addr: a("2001:db8::1"), Proto: 0, AnyPort: true, Text: "ob1(2001:0DB8:0000:0000:0000:0000:0000:0001)"},
			rl{Ob: "ob2", Kind: v09KCIDR, Addr: a("10.0.1.1"), Bits: 32, Proto: 0, AnyPort: true, Hijack: a("::1"), Text: "ob2(10.0.1.1/32, *, ::1)"},
			rl{Ob: "ob1", Kind: v09KSuffix, Dom: "com", Proto: 1, Lo: 81, Hi: 999, Text: "ob1(suffix:COM., tcp/81-999)"},
			rl{Ob: "ob3", Kind: v09KExact, Dom: "notexample.com", Proto: 0, AnyPort: true, Text: "ob3(notexample.com)"},
			rl{Ob: "direct", Kind: v09KAll, Proto: 2, Lo: 443, Hi: 443, Text: "direct(*,udp/443)"},
		}, names: names, v4s: v4s, v6s: v6s, ports: ports},
		{names: names, v4s: v4s, v6s: v6s, ports: ports}, // the empty rule list: everything is default
		// runs of adjacent same-action networks: nested, duplicated, single addresses, sorted ...
		{rules: cat(
			one(rl{Ob: "ob3", Kind: v09KAll, Proto: 2, Lo: 53, Hi: 53, Text: "ob3(all, udp/53)"}), // port-limited "all" first
			run("ob1", 1, 0, 0, "", "10.0.0.0/8", "10.10.0.0/16", "10.20.0.0/16", "10.20.30.40", "10.20.0.0/16"),
			run("ob2", 1, 0, 0, "", "0.0.0.0/0"),
			run("ob2", 0, 0, 0, "8.8.8.8", "2001:db8::/32", "2001:db8:10::/48", "2001:db8:20::/48", "2001:db8:20::1", "2001:db8:10::/48"),
			run("reject", 0, 0, 0, "", "10.0.0.0/7", "2001:db8::/31"),
			one(rl{Ob: "direct", Kind: v09KAll, Proto: 0, AnyPort: true, Text: "direct(all)"}),
		), names: []string{"", "example.com", "10.30.0.1"}, v4s: nets4, v6s: nets6, ports: []uint16{52, 53, 80}},
		// ... and unsorted, the enclosing network last, /0 and /32|/128 members, port-limited action
		{rules: cat(
			run("ob1", 0, 80, 443, "", "10.20.30.40/32", "10.20.0.0/16", "10.10.0.0/16", "10.0.0.0/8", "10.10.0.1", "9.0.0.0/8"),
			run("ob2", 2, 0, 0, "", "2001:db8:20::1/128", "2001:db8:20::/48", "2001:db8:10::/48", "::/0", "2001:db8::/32", "2001:db8:30::/127"),
			run("ob3", 0, 0, 0, "::1", "0.0.0.0/0", "10.10.0.0/16", "10.20.0.0/16", "255.255.255.255/32"),
			one(rl{Ob: "ob1", Kind: v09KSuffix, Dom: "example.com", Proto: 0, AnyPort: true, Text: "ob1(suffix:example.com)"}),
		), names: []string{"", "example.com", "10.30.0.1"}, v4s: nets4, v6s: nets6, ports: []uint16{79, 80, 443, 444}},
		// Punycode host names in every spelling (spelling/history invariance) next to plain names (reference)
		{rules: []v09Rule{
			rl{Ob: "ob1", Kind: v09KWild, Dom: "b*cher.example", Proto: 0, AnyPort: true, Text: "ob1(b*cher.example)"},
			rl{Ob: "ob2", Kind: v09KWild, Dom: "xn--*", Proto: 1, AnyPort: true, Text: "ob2(xn--*, tcp)"},
			rl{Ob: "ob3", Kind: v09KExact, Dom: "xn--mnchen-3ya.example", Proto: 0, AnyPort: true, Hijack: a("8.8.8.8"), Text: "ob3(xn--mnchen-3ya.example, *, 8.8.8.8)"},
			rl{Ob: "direct", Kind: v09KSuffix, Dom: "example", Proto: 2, Lo: 53, Hi: 53, Text: "direct(suffix:example, udp/53)"},
			rl{Ob: "reject", Kind: v09KWild, Dom: "m*nchen.*", Proto: 0, AnyPort: true, Text: "reject(m*nchen.*)"},
		}, names: []string{"xn--bcher-kva.example", "XN--BCHER-KVA.EXAMPLE", "Xn--Bcher-Kva.Example.", "xN--bcher-kva.example", "bucher.example", "BCHER.example.",
			"xn--mnchen-3ya.example", "XN--MNCHEN-3YA.EXAMPLE.", "www.Xn--Mnchen-3ya.example", "munchen.example", "xn--fsq.example", "XN--FSQ.EXAMPLE"},
			v4s: v4s[:2], v6s: v6s[:2], ports: []uint16{53, 80}},
		// host names longer than 255 bytes that differ only behind a long common prefix
		{rules: []v09Rule{
			rl{Ob: "ob1", Kind: v09KSuffix, Dom: "allowed.example", Proto: 0, AnyPort: true, Text: "ob1(suffix:allowed.example)"},
			rl{Ob: "reject", Kind: v09KSuffix, Dom: "blocked.example", Proto: 0, AnyPort: true, Text: "reject(suffix:blocked.example)"},
			rl{Ob: "ob2", Kind: v09KWild, Dom: "*.example", Proto: 1, Lo: 80, Hi: 80, Hijack: a("8.8.8.8"), Text: "ob2(*.example, tcp/80, 8.8.8.8)"},
			rl{Ob: "ob3", Kind: v09KExact, Dom: v09Prefix(256) + ".exact.example", Proto: 0, AnyPort: true, Text: "ob3(" + v09Prefix(256) + ".exact.example)"},
		}, names: []string{
			v09Prefix(63) + ".allowed.example", v09Prefix(63) + ".blocked.example", v09Prefix(64) + ".allowed.example", v09Prefix(64) + ".blocked.example",
			v09Prefix(255) + ".allowed.example", v09Prefix(255) + ".blocked.example", v09Prefix(255) + ".other.example",
			v09Prefix(256) + ".allowed.example", v09Prefix(256) + ".blocked.example", v09Prefix(256) + ".exact.example", v09Prefix(256) + ".exact.example.org",
			v09Prefix(300) + ".ALLOWED.example.", v09Prefix(300) + ".blocked.EXAMPLE", v09Prefix(1000) + ".allowed.example", v09Prefix(1000) + ".blocked.example", v09Prefix(1000) + ".example",
		}, v4s: v4s[:2], v6s: v6s[:2], ports: []uint16{80, 81}},
		// lines longer than 64 KiB (comment; rule padded with blanks) do not end the rule list
		{pre: "# " + strings.Repeat("long comment ", 5100) + "\n", rules: []v09Rule{
			rl{Ob: "ob1", Kind: v09KExact, Dom: "example.com", Proto: 1, Lo: 80, Hi: 80, Text: "ob1(example.com, tcp/80)"},
			rl{Ob: "ob2", Kind: v09KSuffix, Dom: "example.com", Proto: 0, AnyPort: true, Text: "ob2(" + strings.Repeat(" \t", 33000) + "suffix:example.com)" + strings.Repeat(" ", 66000)},
			rl{Ob: "ob3", Kind: v09KCIDR, Addr: a("10.0.0.0"), Bits: 23, Proto: 0, AnyPort: true, Text: "ob3(10.0.0.0/23) #" + strings.Repeat("x", 66000)},
			rl{Ob: "direct", Kind: v09KAll, Proto: 2, AnyPort: true, Text: "direct(all, udp)"},
		}, names: names[:5], v4s: v4s, v6s: v6s[:2], ports: []uint16{79, 80, 81}},
	}
	protos := []int{1, 2}
	obm := v09ObMap()
	for fi, g := range files {
		rules := g.rules
		names, v4s, v6s, ports := g.names, g.v4s, g.v6s, g.ports
		dims := []int{len(names), len(v4s), len(v6s), len(protos), len(ports)}
		var lines []string
		for i := range rules {
			lines = append(lines, rules[i].Text)
		}
		file := g.pre + strings.Join(lines, "\n") + "\n"
		for _, capN := range []int{1, 2, 4, 1024} {
			rs := v09Build(file, capN)
			fresh := func() CompiledRuleSet[int] { return v09Build(file, capN) }
			n, multi, fail := 0, false, ""
			for inner := 0; inner < 5 && fail == ""; inner++ { // which dimension is the innermost loop
				order := []int{}
				for d := 0; d < 5; d++ {
					if d != inner {
						order = append(order, d)
					}
				}
				order = append(order, inner)
				idx := make([]int, 5)
				var rec func(k int)
				rec = func(k int) {
					if fail != "" {
						return
					}
					if k == 5 {
						q := v09Query{Name: names[idx[0]], V4: v4s[idx[1]], V6: v6s[idx[2]], Proto: protos[idx[3]], Port: ports[idx[4]], V4Long: n%2 == 0}
						if lit, err := netip.ParseAddr(q.Name); err == nil && lit != q.V4 {
							return // an IP-literal host only together with that resolved address (bound)
						}
						n++
						msg, _, all := v09CheckOne(rs, fresh, rules, obm, &q)
						if len(all) > 1 && v09MultiDiff(rules, all) {
							multi = true
						}
						if msg != "" {
							fail = fmt.Sprintf("file %d cache=%d pass %d lookup #%d: %s\nrules:\n%s", fi, capN, inner, n, msg, v09Abbrev(file))
						}
						return
					}
					d := order[k]
					for idx[d] = 0; idx[d] < dims[d]; idx[d]++ {
						rec(k + 1)
					}
				}
				rec(0)
			}
			st.Case(multi || len(rules) == 0, fmt.Sprintf("grid/%d/%d", fi, capN), []string{fmt.Sprintf("cache=%d", capN)}, func() string {
				return fmt.Sprintf("grid file %d cache=%d: %d lookups in 5 passes over %v names x v4 x v6 x proto x port\n%s", fi, capN, n, dims, v09Abbrev(file))
			})
			st.Extra(fmt.Sprintf("grid_lookups_file%d_cache%d", fi, capN), n)
			if fail != "" { // (recorded above first: the driver needs at least one sample per stats file)
				t.Fatalf("C09 grid: %s", fail)
			}
		}
	}
}
