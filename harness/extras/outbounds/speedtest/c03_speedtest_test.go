package speedtest

// C03 — peer-controlled bytes never crash the process (built-in speed test).
//
// Server side: a proxy client that asks for "@SpeedTest" gets NewServerConn(): its
// stream bytes are copied into one end of a net.Pipe whose other end is read by
// server(conn). The harness drives server(conn) both synchronously over a scripted
// net.Conn (arbitrary chunking, so a panic is recovered and the input printed) and
// through the real NewServerConn() pipe (goroutine; a panic there kills the
// process, which the driver reports).
// Client side: Client.Download / Client.Upload and the response readers read what
// a remote server sends back.
//
// No wall-clock dependence: only size-based mode (duration 0) is used, the scripted
// connection never blocks, pipe operations are bounded by closing the other end.
//
// Oracle: no panic; calls return; afterwards a well-formed small download request
// to a fresh NewServerConn() is answered with status OK and exactly the requested
// number of bytes (service continues).

import (
	"bytes"
	"encoding/binary"
	"encoding/hex"
	"errors"
	"fmt"
	"io"
	"net"
	"runtime/debug"
	"strings"
	"testing"
	"time"

	"pgregory.net/rapid"
)

func v03Guard(fn func()) (pv any, stack string) {
	defer func() {
		if r := recover(); r != nil {
			pv, stack = r, string(debug.Stack())
		}
	}()
	fn()
	return nil, ""
}

func v03Hex(b []byte) string {
	if len(b) > 100 {
		return fmt.Sprintf("%s…(%d bytes)", hex.EncodeToString(b[:100]), len(b))
	}
	return hex.EncodeToString(b)
}

// ---- scripted net.Conn ----

type v03Addr struct{}

func (v03Addr) Network() string { return "v03" }
func (v03Addr) String() string  { return "v03" }

var v03ErrReset = errors.New("v03: connection reset by peer")

type v03Conn struct {
	in       []byte // what the peer sends
	pos      int
	chunk    int
	endErr   error
	zeros    int64 // after `in`: this many zero bytes are available (bulk data) before endErr
	written  int64
	wHead    []byte // first bytes written by the code under test
	writeErr error  // returned after failAfter bytes were accepted
	failAt   int64
	closed   bool
}

func (c *v03Conn) Read(p []byte) (int, error) {
	if len(p) == 0 {
		return 0, nil
	}
	if c.pos < len(c.in) {
		n := min(len(c.in)-c.pos, len(p), c.chunk)
		copy(p, c.in[c.pos:c.pos+n])
		c.pos += n
		return n, nil
	}
	if c.zeros > 0 {
		n := int(min(int64(len(p)), c.zeros, int64(max(c.chunk, 1024))))
		if c.zeros > 1<<20 {
			n = int(min(int64(len(p)), c.zeros)) // bulk phase: content and chunking are irrelevant, keep it cheap
		}
		c.zeros -= int64(n)
		return n, nil
	}
	return 0, c.endErr
}

func (c *v03Conn) Write(p []byte) (int, error) {
	if c.failAt > 0 && c.written+int64(len(p)) > c.failAt {
		n := int(c.failAt - c.written)
		if n < 0 {
			n = 0
		}
		c.written += int64(n)
		return n, c.writeErr
	}
	if len(c.wHead) < 64 {
		c.wHead = append(c.wHead, p[:min(len(p), 64-len(c.wHead))]...)
	}
	c.written += int64(len(p))
	return len(p), nil
}
func (c *v03Conn) Close() error                     { c.closed = true; return nil }
func (c *v03Conn) LocalAddr() net.Addr              { return v03Addr{} }
func (c *v03Conn) RemoteAddr() net.Addr             { return v03Addr{} }
func (c *v03Conn) SetDeadline(time.Time) error      { return nil }
func (c *v03Conn) SetReadDeadline(time.Time) error  { return nil }
func (c *v03Conn) SetWriteDeadline(time.Time) error { return nil }

// ---- probe through the real pipe ----

func v03ProbeServer() error {
	c := NewServerConn()
	defer c.Close()
	_ = c.SetDeadline(time.Now().Add(60 * time.Second))
	if _, err := c.Write([]byte{0x01, 0, 0, 0x01, 0x2c}); err != nil { // download 300 bytes
		return fmt.Errorf("probe write: %v", err)
	}
	hdr := make([]byte, 5)
	if _, err := io.ReadFull(c, hdr); err != nil {
		if ne, ok := err.(net.Error); ok && ne.Timeout() {
			vInconclusive("C03 speedtest probe: no answer from a fresh speed-test server within 60 s")
		}
		return fmt.Errorf("probe: reading the response header: %v", err)
	}
	if !bytes.Equal(hdr, []byte{0, 0, 2, 'O', 'K'}) {
		return fmt.Errorf("probe: response header %s, want 0000024f4b", v03Hex(hdr))
	}
	body, err := io.ReadAll(c)
	if err != nil || len(body) != 300 {
		return fmt.Errorf("probe: got %d body bytes (err %v), want 300 then EOF", len(body), err)
	}
	return nil
}

// ---- server ----

type v03SrvCase struct {
	in      []byte
	chunk   int
	endErr  error
	zeros   int64
	failAt  int64
	viaPipe bool
	desc    string
}

func v03RunServer(c *v03SrvCase) (string, error) {
	if c.viaPipe {
		// the real thing: NewServerConn + goroutine. Writes may block until the server reads; the
		// server may stop reading: bound everything by a deadline on our end and close at the end.
		conn := NewServerConn()
		_ = conn.SetDeadline(time.Now().Add(60 * time.Second)) // safety net only
		wdone := make(chan struct{})
		go func() { // the client's upstream copy loop
			defer close(wdone)
			for off := 0; off < len(c.in); off += c.chunk {
				if _, err := conn.Write(c.in[off:min(len(c.in), off+c.chunk)]); err != nil {
					return
				}
			}
		}()
		// read exactly what the protocol guarantees will come, then hang up
		got := 0
		expect := 0
		if len(c.in) >= 5 && (c.in[0] == 1 || c.in[0] == 2) {
			size := int64(binary.BigEndian.Uint32(c.in[1:5]))
			expect = 5
			if c.in[0] == 1 {
				expect += int(min(size, 3000))
			} else if int64(len(c.in)-5) >= size {
				expect += 8
			}
		}
		if expect > 0 {
			n, err := io.ReadFull(conn, make([]byte, expect))
			got = n
			if ne, ok := err.(net.Error); ok && ne.Timeout() {
				vInconclusive("C03 speedtest: the piped server did not answer a complete request within 60 s")
			}
			if err != nil {
				_ = conn.Close()
				<-wdone
				return "pipe", fmt.Errorf("service failed: a complete, well-formed request %s got only %d of the %d bytes the protocol promises (%v)", v03Hex(c.in), n, expect, err)
			}
		}
		_ = conn.Close()
		<-wdone
		if err := v03ProbeServer(); err != nil {
			return "pipe", fmt.Errorf("service did not continue after request bytes %s: %v", v03Hex(c.in), err)
		}
		if got > 0 {
			return "pipe:answered", nil
		}
		return "pipe:silent", nil
	}
	conn := &v03Conn{in: c.in, chunk: c.chunk, endErr: c.endErr, zeros: c.zeros, failAt: c.failAt, writeErr: v03ErrReset}
	var err error
	pv, stack := v03Guard(func() { err = server(conn) })
	if pv != nil {
		return "PANIC", fmt.Errorf("speedtest server() panicked: %v\nrequest bytes (hex, chunk=%d, then %d bulk bytes, then %v): %s\n%s", pv, c.chunk, c.zeros, c.endErr, v03Hex(c.in), stack)
	}
	cls := "sync:"
	switch {
	case err == nil:
		cls += "completed"
	case strings.Contains(err.Error(), "unknown request type"):
		cls += "unknown-type"
	case errors.Is(err, io.EOF) || errors.Is(err, io.ErrUnexpectedEOF):
		cls += "eof"
	case errors.Is(err, v03ErrReset):
		cls += "reset"
	default:
		cls += "error"
	}
	return cls, nil
}

func v03GenServerCase(rt *rapid.T) *v03SrvCase {
	c := &v03SrvCase{chunk: rapid.SampledFrom([]int{1, 2, 3, 5, 4096, 1 << 20}).Draw(rt, "chunk")}
	c.endErr = rapid.SampledFrom([]error{io.EOF, io.EOF, v03ErrReset}).Draw(rt, "endErr")
	c.viaPipe = rapid.IntRange(0, 9).Draw(rt, "viaPipe") >= 8
	typ := v03MostlyB(rt, "type", []byte{1, 2, 0, 3, 0xff})
	size := rapid.SampledFrom([]uint32{0, 1, 5, 65535, 65536, 65537, 131072, 1 << 20, 1 << 24, 1<<31 - 1, 1 << 31, 1<<32 - 1}).Draw(rt, "size")
	if c.viaPipe && size > 1<<20 {
		size = 1 << 20 // the pipe copies every byte: keep it cheap
	}
	req := []byte{typ}
	req = binary.BigEndian.AppendUint32(req, size)
	c.desc = fmt.Sprintf("type=%d size=%d", typ, size)
	switch rapid.IntRange(0, 9).Draw(rt, "shape") {
	case 9:
		req = req[:rapid.IntRange(0, 4).Draw(rt, "cut")]
		c.desc += " cut"
	case 8:
		req = rapid.SliceOfN(rapid.Byte(), 0, 12).Draw(rt, "bytes")
		c.desc = "arbitrary"
	}
	c.in = req
	if typ == 2 && len(req) == 5 {
		// upload: how much data really follows
		switch rapid.IntRange(0, 4).Draw(rt, "upload") {
		case 0:
			c.zeros = int64(size)
		case 1:
			c.zeros = int64(size) + 10
		case 2:
			c.zeros = int64(size) / 2
		case 3:
			c.zeros = max(int64(size)-1, 0)
		default:
			c.zeros = 0
		}
		if c.viaPipe {
			c.in = append(c.in, make([]byte, min(c.zeros, 200000))...)
			c.zeros = 0
		}
		c.desc += fmt.Sprintf(" upload-available=%d", c.zeros)
	} else {
		c.in = append(c.in, rapid.SliceOfN(rapid.Byte(), 0, 6).Draw(rt, "trailing")...)
	}
	if rapid.IntRange(0, 7).Draw(rt, "writeFails") == 7 {
		c.failAt = rapid.SampledFrom([]int64{1, 2, 5, 6, 65536 + 5, 100000}).Draw(rt, "failAt")
		c.desc += fmt.Sprintf(" peer-resets-after=%d", c.failAt)
	}
	return c
}

func v03MostlyB(rt *rapid.T, label string, choices []byte) byte {
	if rapid.IntRange(0, 9).Draw(rt, label+"_std") < 4 {
		return choices[rapid.IntRange(0, 1).Draw(rt, label+"_01")]
	}
	return rapid.SampledFrom(choices).Draw(rt, label)
}

func TestVerifC03_SpeedtestServer(t *testing.T) {
	st := newVStats("TestVerifC03_SpeedtestServer")
	defer st.Flush()
	n := 0
	rapid.Check(t, func(rt *rapid.T) {
		c := v03GenServerCase(rt)
		cls, err := v03RunServer(c)
		if err == nil && !c.viaPipe {
			if n++; n%64 == 0 { // the sync path shares no state with the pipe path; probe now and then
				err = v03ProbeServer()
			}
		}
		nt := len(c.in) >= 5 && (c.in[0] == 1 || c.in[0] == 2) // a full request header of a known type
		st.Case(nt, fmt.Sprintf("%s|%s", cls, c.desc), []string{cls}, func() string { return c.desc + " -> " + cls + " : " + v03Hex(c.in) })
		if err != nil {
			rt.Fatalf("C03: %v", err)
		}
	})
}

// ---- client ----

type v03CliCase struct {
	upload   bool
	dataSize uint32
	reply    []byte
	zeros    int64
	chunk    int
	endErr   error
	failAt   int64
	desc     string
}

func v03RunClient(c *v03CliCase) (string, error) {
	conn := &v03Conn{in: c.reply, chunk: c.chunk, endErr: c.endErr, zeros: c.zeros, failAt: c.failAt, writeErr: v03ErrReset}
	cl := &Client{Conn: conn}
	var err error
	calls := 0
	cb := func(d time.Duration, b uint64, done bool) { calls++ }
	pv, stack := v03Guard(func() {
		if c.upload {
			err = cl.Upload(c.dataSize, 0, cb)
		} else {
			err = cl.Download(c.dataSize, 0, cb)
		}
	})
	op := "download"
	if c.upload {
		op = "upload"
	}
	if pv != nil {
		return "PANIC", fmt.Errorf("speedtest Client.%s(%d) panicked: %v\nserver reply bytes (hex, chunk=%d, then %d bulk bytes, then %v): %s\n%s", op, c.dataSize, pv, c.chunk, c.zeros, c.endErr, v03Hex(c.reply), stack)
	}
	cls := op + ":"
	switch {
	case err == nil:
		cls += "completed"
	case strings.Contains(err.Error(), "rejected"):
		cls += "rejected"
	case errors.Is(err, io.EOF) || errors.Is(err, io.ErrUnexpectedEOF):
		cls += "eof"
	case errors.Is(err, v03ErrReset):
		cls += "reset"
	default:
		cls += "error"
	}
	// service continues: the same client code against a well-behaved scripted server
	good := &v03Conn{in: []byte{0, 0, 2, 'O', 'K'}, chunk: 2, zeros: 1000, endErr: io.EOF}
	var gerr error
	var total uint64
	pv, stack = v03Guard(func() {
		gerr = (&Client{Conn: good}).Download(1000, 0, func(d time.Duration, b uint64, done bool) {
			if done {
				total = b
			}
		})
	})
	if pv != nil || gerr != nil || total != 1000 {
		return cls, fmt.Errorf("service did not continue: a well-formed download after reply %s gave total=%d err=%v panic=%v\n%s", v03Hex(c.reply), total, gerr, pv, stack)
	}
	return cls, nil
}

func v03GenClientCase(rt *rapid.T) *v03CliCase {
	c := &v03CliCase{upload: rapid.Bool().Draw(rt, "upload"), chunk: rapid.SampledFrom([]int{1, 2, 3, 4096, 1 << 20}).Draw(rt, "chunk")}
	c.endErr = rapid.SampledFrom([]error{io.EOF, io.EOF, v03ErrReset}).Draw(rt, "endErr")
	c.dataSize = rapid.SampledFrom([]uint32{0, 1, 1000, 65535, 65536, 65537, 200000, 1 << 22}).Draw(rt, "dataSize")
	status := v03MostlyB(rt, "status", []byte{0, 1, 2, 0xff})
	msgLen := rapid.SampledFrom([]int{2, 0, 1, 100, 65535}).Draw(rt, "msgLen")
	avail := msgLen
	if rapid.IntRange(0, 5).Draw(rt, "msgShort") == 5 {
		avail = rapid.IntRange(0, msgLen).Draw(rt, "msgAvail")
	}
	rep := []byte{status, byte(msgLen >> 8), byte(msgLen)}
	rep = append(rep, bytes.Repeat([]byte{'m'}, avail)...)
	c.desc = fmt.Sprintf("status=%d msgLen=%d avail=%d", status, msgLen, avail)
	switch rapid.IntRange(0, 9).Draw(rt, "shape") {
	case 9:
		rep = rep[:rapid.IntRange(0, min(len(rep), 3)).Draw(rt, "cut")]
		c.desc += " cut-in-header"
	case 8:
		rep = rapid.SliceOfN(rapid.Byte(), 0, 12).Draw(rt, "bytes")
		c.desc = "arbitrary"
	}
	c.reply = rep
	if c.upload {
		// after the data the server sends an 8-byte summary: hostile values / truncation
		sum := binary.BigEndian.AppendUint32(nil, rapid.SampledFrom([]uint32{0, 1, 1000, 1<<32 - 1}).Draw(rt, "sumDur"))
		sum = binary.BigEndian.AppendUint32(sum, rapid.SampledFrom([]uint32{0, c.dataSize, c.dataSize + 1, 1<<32 - 1}).Draw(rt, "sumLen"))
		c.reply = append(c.reply, sum[:rapid.SampledFrom([]int{8, 8, 8, 0, 3, 7}).Draw(rt, "sumAvail")]...)
		if rapid.IntRange(0, 7).Draw(rt, "writeFails") == 7 {
			c.failAt = rapid.SampledFrom([]int64{1, 5, 6, 65536 + 5, 100000}).Draw(rt, "failAt")
			c.desc += fmt.Sprintf(" server-resets-after=%d", c.failAt)
		}
	} else {
		switch rapid.IntRange(0, 4).Draw(rt, "dl") {
		case 0:
			c.zeros = int64(c.dataSize)
		case 1:
			c.zeros = int64(c.dataSize) + 70000 // server sends more than asked
		case 2:
			c.zeros = int64(c.dataSize) / 2
		case 3:
			c.zeros = max(int64(c.dataSize)-1, 0)
		}
		c.desc += fmt.Sprintf(" data-sent=%d of %d", c.zeros, c.dataSize)
	}
	return c
}

func TestVerifC03_SpeedtestClient(t *testing.T) {
	st := newVStats("TestVerifC03_SpeedtestClient")
	defer st.Flush()
	rapid.Check(t, func(rt *rapid.T) {
		c := v03GenClientCase(rt)
		cls, err := v03RunClient(c)
		nt := len(c.reply) >= 3 // a full response header: status and message length are used
		st.Case(nt, fmt.Sprintf("%s|%s", cls, c.desc), []string{cls}, func() string { return c.desc + " -> " + cls + " : " + v03Hex(c.reply) })
		if err != nil {
			rt.Fatalf("C03: %v", err)
		}
	})
}

// FuzzVerifC03_Speedtest: mode bit0: bytes are a request for server(); else a server's reply for the client
// (bit1 upload/download); bits 2-3 chunking.
func FuzzVerifC03_Speedtest(f *testing.F) {
	f.Add([]byte{1, 0, 0, 0, 100}, uint8(1))
	f.Add([]byte{2, 0, 0, 0, 3, 'a', 'b', 'c'}, uint8(1))
	f.Add([]byte{2, 0xff, 0xff, 0xff, 0xff, 1, 2, 3}, uint8(5))
	f.Add([]byte{1, 0xff, 0xff, 0xff, 0xff}, uint8(1))
	f.Add([]byte{3}, uint8(1))
	f.Add([]byte{}, uint8(1))
	f.Add([]byte{1, 0, 0}, uint8(9))
	f.Add([]byte{0, 0, 2, 'O', 'K', 1, 2, 3}, uint8(0))
	f.Add([]byte{1, 0, 5, 'n', 'o', 'p', 'e', '!'}, uint8(0))
	f.Add([]byte{0, 0xff, 0xff, 'x'}, uint8(2))
	f.Add([]byte{0, 0, 0, 0, 0, 0, 1, 0, 0, 0, 5}, uint8(2))
	f.Fuzz(func(t *testing.T, data []byte, mode uint8) {
		chunk := []int{1 << 20, 1, 2, 7}[(mode>>2)&3]
		if mode&1 == 1 {
			c := &v03SrvCase{in: data, chunk: chunk, endErr: io.EOF}
			if len(data) >= 5 && binary.BigEndian.Uint32(data[1:5]) > 1<<24 {
				c.failAt = 1 << 20 // a client that hangs up during a huge download
			}
			if _, err := v03RunServer(c); err != nil {
				t.Fatalf("C03: %v", err)
			}
			return
		}
		c := &v03CliCase{upload: mode&2 != 0, dataSize: uint32(mode>>4) * 4099, reply: data, chunk: chunk, endErr: io.EOF}
		if _, err := v03RunClient(c); err != nil {
			t.Fatalf("C03: %v", err)
		}
	})
}
