package outbounds

// C09 at the engine level: NewACLEngineFromString with fake PluggableOutbounds.
// Observed per request: which outbound was called (or the built-in reject
// answered) and which address it was handed (hijack rewriting of Host and
// ResolveInfo), compared with the reference evaluator of c09_model_test.go on
// every request of the sequence. The engine's decision cache holds 1024
// entries; TestVerifC09_EngineEvict drives more than 1024 distinct requests
// between two askings of the same probes.

import (
	"fmt"
	"net"
	"net/netip"
	"strings"
	"testing"

	"pgregory.net/rapid"
)

const v09EngineCache = 1024 // documented size of the engine's decision cache (acl.go: aclCacheSize)

type v09Call struct {
	id     int
	op     string
	host   string
	port   uint16
	hasRI  bool
	v4, v6 net.IP
}

type v09FakeOB struct {
	id  int
	log *[]v09Call
}

func (f *v09FakeOB) rec(op string, a *AddrEx) {
	c := v09Call{id: f.id, op: op, host: a.Host, port: a.Port}
	if a.ResolveInfo != nil {
		c.hasRI = true
		c.v4 = append(net.IP(nil), a.ResolveInfo.IPv4...)
		c.v6 = append(net.IP(nil), a.ResolveInfo.IPv6...)
	}
	*f.log = append(*f.log, c)
}

func (f *v09FakeOB) TCP(a *AddrEx) (net.Conn, error) { f.rec("TCP", a); return nil, nil }
func (f *v09FakeOB) UDP(a *AddrEx) (UDPConn, error)  { f.rec("UDP", a); return nil, nil }
func (f *v09FakeOB) CheckUDP(a *AddrEx) error        { f.rec("CheckUDP", a); return nil }

func v09NetIP(a netip.Addr, long bool) net.IP {
	if !a.IsValid() {
		return nil
	}
	if a.Is4() && long {
		b := a.As16()
		return net.IP(b[:])
	}
	return net.IP(a.AsSlice())
}

func v09SameIP(got net.IP, want netip.Addr) bool {
	if len(got) == 0 {
		return !want.IsValid()
	}
	g, ok := netip.AddrFromSlice(got)
	return ok && want.IsValid() && g.Unmap() == want
}

// v09Engine is one generated configuration: outbound list, rule file, engine, expectation tables.
type v09Engine struct {
	entriesText string
	file        string
	rules       []v09Rule
	eng         PluggableOutbound
	log         []v09Call
	byName      map[string]int // canonical name -> fake id (1..); -1 = the built-in reject
	defaultID   int
	entries     []OutboundEntry
	long        bool
	longNames   bool
}

const v09Reject = -1

// v09GenEngine draws the outbound list (documented semantics, acl.go: the first
// entry is the default unless an entry is called "default"; "reject" is built in
// unless overridden; names are case-insensitive) and the rule list.
func v09GenEngine(c *v09Ctx, maxRules int) *v09Engine {
	e := &v09Engine{byName: map[string]int{}}
	pool := []string{"ob1", "ob2", "ob3", "direct", "reject", "default"}
	n := c.n(1, 4, "nOutbounds")
	picked := rapid.SliceOfNDistinct(rapid.IntRange(0, len(pool)-1), n, n, rapid.ID[int]).Draw(c.t, "outboundNames")
	var entries []OutboundEntry
	var names []string
	var et []string
	for i, pi := range picked {
		id := i + 1
		spelled := c.spell(pool[pi], "entrySpell")
		entries = append(entries, OutboundEntry{Name: spelled, Outbound: &v09FakeOB{id: id, log: &e.log}})
		e.byName[pool[pi]] = id
		names = append(names, pool[pi])
		et = append(et, fmt.Sprintf("%s=fake%d", spelled, id))
	}
	e.entriesText = strings.Join(et, ",")
	if _, ok := e.byName["reject"]; !ok {
		e.byName["reject"] = v09Reject
		names = append(names, "reject")
	}
	if _, ok := e.byName["default"]; !ok {
		e.byName["default"] = 1 // the first entry
		names = append(names, "default")
	}
	// "direct" is only usable in rules when a fake overrides it (the built-in one would dial out)
	e.defaultID = e.byName["default"]
	e.rules = c.genRules(names, true, 0, maxRules)
	e.file = c.renderFile(e.rules)
	e.entries = entries
	return e
}

// build makes an engine from the (possibly post-processed) rule file; called after all draws.
func (e *v09Engine) build() PluggableOutbound {
	eng, err := NewACLEngineFromString(e.file, e.entries, nil)
	if err != nil {
		vInconclusive(fmt.Sprintf("C09 harness grammar produced a rule file the engine rejects: %v\noutbounds: %s\n%s", err, e.entriesText, v09Abbrev(e.file)))
	}
	return eng
}

// finish appends one witness request per rule (no draws), draws the long-line
// variant last (so that earlier draws keep their meaning) and builds the engine.
func (e *v09Engine) finish(c *v09Ctx, qs []v09Query) []v09Query {
	for i := range e.rules {
		qs = append(qs, v09Witness(&e.rules[i]))
	}
	if c.n(0, 39, "longLine") == 0 {
		e.file = v09LongLine(e.file, c.n(0, 40, "longAt"), c.n(0, 3, "longHow"))
		e.long = true
	}
	if ln := c.longNames(e.rules, qs); ln != nil { // drawn after everything else
		qs = append(qs, ln...)
		e.longNames = true
	}
	e.eng = e.build()
	return qs
}

type v09Seen struct {
	rejected bool
	calls    int
	id       int
	op       string
	port     uint16
	rewrote  bool // the outbound saw another Host than the one requested
	host     string
	hasRI    bool
	v4, v6   string
}

// send performs one request on eng and reports what the outbounds saw.
func (e *v09Engine) send(eng PluggableOutbound, q *v09Query) (v09Seen, error) {
	req := &AddrEx{Host: q.Name, Port: q.Port}
	if !q.NilInfo {
		req.ResolveInfo = &ResolveInfo{IPv4: v09NetIP(q.V4, q.V4Long), IPv6: v09NetIP(q.V6, false)}
	}
	e.log = e.log[:0]
	var err error
	switch q.Op {
	case 0:
		_, err = eng.TCP(req)
	case 1:
		_, err = eng.UDP(req)
	default:
		err = eng.CheckUDP(req)
	}
	sn := v09Seen{calls: len(e.log), rejected: len(e.log) == 0 && err != nil}
	if len(e.log) > 0 {
		g := e.log[0]
		sn.id, sn.op, sn.port, sn.hasRI, sn.v4, sn.v6 = g.id, g.op, g.port, g.hasRI, g.v4.String(), g.v6.String()
		if g.host != q.Name {
			sn.rewrote, sn.host = true, g.host
		}
	}
	return sn, err
}

// ask sends one request through the engine and compares with the reference. "" = ok.
func (e *v09Engine) ask(q *v09Query) (string, int, []int) {
	if v09HasACE(q.Name) {
		// Punycode name: any spelling on the used engine == the lower-case spelling on a fresh engine
		canon := *q
		canon.Name = v09NormName(q.Name)
		want, _ := e.send(e.build(), &canon)
		got, _ := e.send(e.eng, q)
		if got != want {
			return fmt.Sprintf("%v was handled as %+v but the same request spelled %q on a fresh engine as %+v: host names must compare case-insensitively, ignoring a trailing dot, independent of history", *q, got, canon.Name, want), -2, nil
		}
		return "", -2, nil
	}
	req := &AddrEx{Host: q.Name, Port: q.Port}
	if !q.NilInfo {
		req.ResolveInfo = &ResolveInfo{IPv4: v09NetIP(q.V4, q.V4Long), IPv6: v09NetIP(q.V6, false)}
	}
	e.log = e.log[:0]
	var err error
	op := [...]string{"TCP", "UDP", "CheckUDP"}[q.Op]
	switch q.Op {
	case 0:
		_, err = e.eng.TCP(req)
	case 1:
		_, err = e.eng.UDP(req)
	default:
		err = e.eng.CheckUDP(req)
	}
	first, all := v09First(e.rules, q)
	wantID, wantHijack, why := e.defaultID, netip.Addr{}, "no rule matches -> default outbound"
	if first >= 0 {
		wantID, wantHijack = e.byName[e.rules[first].Ob], e.rules[first].Hijack
		why = fmt.Sprintf("first matching rule is #%d %q", first, v09Abbrev(strings.TrimSpace(e.rules[first].Text)))
	}
	bad := func(f string, a ...any) (string, int, []int) {
		return fmt.Sprintf("%s%v: ", op, *q) + fmt.Sprintf(f, a...) + " (" + why + ")", first, all
	}
	if wantID == v09Reject {
		if len(e.log) != 0 {
			return bad("outbound fake%d was called, want the built-in reject", e.log[0].id)
		}
		if err == nil {
			return bad("request was not rejected")
		}
		return "", first, all
	}
	if len(e.log) != 1 {
		if len(e.log) == 0 {
			return bad("no outbound was called (err=%v), want fake%d", err, wantID)
		}
		return bad("%d outbound calls for one request", len(e.log))
	}
	got := e.log[0]
	if got.id != wantID || got.op != op {
		return bad("handled by fake%d.%s, want fake%d.%s", got.id, got.op, wantID, op)
	}
	if got.port != q.Port {
		return bad("outbound saw port %d", got.port)
	}
	if wantHijack.IsValid() {
		h, perr := netip.ParseAddr(got.host)
		if perr != nil || h.Unmap() != wantHijack {
			return bad("outbound saw Host=%q, want the hijack address %v", got.host, wantHijack)
		}
		var w4, w6 netip.Addr
		if wantHijack.Is4() {
			w4 = wantHijack
		} else {
			w6 = wantHijack
		}
		if !got.hasRI || !v09SameIP(got.v4, w4) || !v09SameIP(got.v6, w6) {
			return bad("outbound saw ResolveInfo{present=%v IPv4=%v IPv6=%v}, want only the hijack address %v", got.hasRI, got.v4, got.v6, wantHijack)
		}
	} else {
		if got.host != q.Name {
			return bad("outbound saw Host=%q although the deciding rule has no hijack address", got.host)
		}
		if got.hasRI == q.NilInfo || !v09SameIP(got.v4, q.V4) || !v09SameIP(got.v6, q.V6) {
			return bad("outbound saw ResolveInfo{present=%v IPv4=%v IPv6=%v} although the deciding rule has no hijack address", got.hasRI, got.v4, got.v6)
		}
	}
	return "", first, all
}

func v09MultiDiff(rules []v09Rule, all []int) bool {
	for _, i := range all[1:] {
		if rules[i].Ob != rules[all[0]].Ob || rules[i].Hijack != rules[all[0]].Hijack {
			return true
		}
	}
	return false
}

func v09Keys(qs []v09Query) string {
	var sb strings.Builder
	for i := range qs {
		sb.WriteString(qs[i].Key())
		sb.WriteByte(';')
	}
	return sb.String()
}

type v09Tally struct {
	seen map[string]bool
}

func (t *v09Tally) add(s string) {
	if t.seen == nil {
		t.seen = map[string]bool{}
	}
	t.seen[s] = true
}

func (t *v09Tally) note(e *v09Engine, q *v09Query, first int, all []int) {
	switch {
	case first == -2:
		t.add("query:punycode-name(spelling/history invariance)")
	case first < 0:
		t.add("decided:default")
	default:
		r := &e.rules[first]
		t.add("decided:" + v09KindNames[r.Kind])
		if r.Hijack.IsValid() {
			t.add("decided:with-hijack")
		}
		if first > 0 {
			t.add("decided:by-later-rule")
		}
		if e.byName[r.Ob] == v09Reject {
			t.add("decided:built-in-reject")
		}
		if r.Ob == "default" {
			t.add("decided:rule-names-default")
		}
	}
	if q.NilInfo {
		t.add("query:no-resolve-info")
	}
	if q.Name != "" && q.Name != v09NormName(q.Name) {
		t.add("query:case-or-dot-variant")
	}
	if len(all) > 1 && v09MultiDiff(e.rules, all) {
		t.add("query-matched-by>=2-rules-with-different-results")
	}
}

func (t *v09Tally) list() []string {
	var out []string
	for _, k := range []string{"decided:default", "decided:exact", "decided:suffix", "decided:wildcard", "decided:ip", "decided:cidr",
		"decided:all", "decided:with-hijack", "decided:by-later-rule", "decided:built-in-reject", "decided:rule-names-default",
		"query:no-resolve-info", "query:case-or-dot-variant", "query:punycode-name(spelling/history invariance)", "file:line>64KiB", "query:long-names-sharing-a-prefix", "repeat:cache-hit", "repeat:hit-under-other-spelling",
		"repeat:after-eviction", "query-matched-by>=2-rules-with-different-results", "default-overridden-by-name", "empty-rule-list"} {
		if t.seen[k] {
			out = append(out, k)
		}
	}
	return out
}

func (e *v09Engine) render(qs []v09Query, upto int) string {
	return "outbounds: " + e.entriesText + "\n" + v09RenderCase(e.file, v09EngineCache, qs, upto)
}

func (e *v09Engine) run(qs []v09Query, tl *v09Tally) string {
	for i := range qs {
		msg, first, all := e.ask(&qs[i])
		tl.note(e, &qs[i], first, all)
		if msg != "" {
			return fmt.Sprintf("request #%d: %s\n%s", i, msg, e.render(qs, i))
		}
	}
	return ""
}

// TestVerifC09_Engine: short request sequences (no eviction: the cache is 1024),
// every answer – first asking or cache hit – against the reference.
func TestVerifC09_Engine(t *testing.T) {
	st := newVStats("TestVerifC09_Engine")
	defer st.Flush()
	rapid.Check(t, func(rt *rapid.T) {
		c := &v09Ctx{t: rt, st: st}
		e := v09GenEngine(c, 12)
		qs := c.genQueries(e.rules, 5, 60, true)
		qs = e.finish(c, qs)
		var tl v09Tally
		fail := e.run(qs, &tl)
		sh := v09Analyse(qs, v09EngineCache)
		if sh.repeatHit {
			tl.add("repeat:cache-hit")
		}
		if sh.respelledRepeat {
			tl.add("repeat:hit-under-other-spelling")
		}
		if e.defaultID != 1 {
			tl.add("default-overridden-by-name")
		}
		if e.long {
			tl.add("file:line>64KiB")
		}
		if e.longNames {
			tl.add("query:long-names-sharing-a-prefix")
		}
		if len(e.rules) == 0 {
			tl.add("empty-rule-list")
		}
		// no eviction is possible here: non-trivial = a cache hit and a query on which rule order matters
		nt := sh.repeatHit && tl.seen["query-matched-by>=2-rules-with-different-results"]
		st.Case(nt, e.entriesText+"\x00"+v09Abbrev(e.file)+"\x00"+v09Keys(qs), tl.list(), func() string { return e.render(qs, len(qs)-1) })
		if fail != "" {
			rt.Fatalf("C09 engine: %s", fail)
		}
	})
}

// TestVerifC09_EngineEvict: probes, then a flood of >= 1024 further distinct
// requests (each compared too; up to two "hot" probes re-asked in between stay cached), then the
// probes again (re-evaluated after eviction, possibly spelled differently), then
// once more (cache hits).
func TestVerifC09_EngineEvict(t *testing.T) {
	st := newVStats("TestVerifC09_EngineEvict")
	defer st.Flush()
	maxDistinct := 0
	rapid.Check(t, func(rt *rapid.T) {
		c := &v09Ctx{t: rt, st: st}
		e := v09GenEngine(c, 12)
		probes := c.genQueries(e.rules, 3, 25, false)
		probeKeys := map[string]bool{}
		for i := range probes {
			probeKeys[probes[i].Key()] = true
		}
		ports := c.portCandidates(e.rules)
		hosts := c.genQueries(e.rules, 3, 6, false)
		flood := v09EngineCache + c.n(0, 80, "floodExtra")
		start := int(ports[c.n(0, len(ports)-1, "floodStart")]) - c.n(0, flood, "floodBack")
		qs := append([]v09Query(nil), probes...)
		hot := c.n(0, 2, "hotProbes")
		for i, made := 0, 0; made < flood; i++ {
			q := hosts[i%len(hosts)]
			q.Port = uint16(((start-1+i)%65535+65535)%65535 + 1) // distinct ports -> distinct keys
			if (i/len(hosts))%2 == 1 {
				q.Proto = 3 - q.Proto
				q.Op = q.Proto - 1
			}
			if probeKeys[q.Key()] {
				continue
			}
			qs = append(qs, q)
			made++
			// "hot" probes are re-asked often enough to stay cached through the churn; the others go cold
			if hot > 0 && c.n(0, 31, "probeInFlood") == 0 {
				qs = append(qs, probes[c.n(0, hot-1, "which")])
			}
		}
		for _, i := range rapid.Permutation(v09Iota(len(probes))).Draw(rt, "reaskOrder") {
			q := probes[i]
			if _, err := netip.ParseAddr(v09NormName(q.Name)); err != nil && c.n(0, 1, "respell") == 0 {
				q.Name = c.spellHost(v09NormName(q.Name), "qSpell")
			}
			qs = append(qs, q)
		}
		qs = append(qs, probes...)
		qs = e.finish(c, qs)
		var tl v09Tally
		fail := e.run(qs, &tl)
		sh := v09Analyse(qs, v09EngineCache)
		if sh.repeatHit {
			tl.add("repeat:cache-hit")
		}
		if sh.respelledRepeat {
			tl.add("repeat:hit-under-other-spelling")
		}
		if sh.repeatEvicted {
			tl.add("repeat:after-eviction")
		}
		if e.defaultID != 1 {
			tl.add("default-overridden-by-name")
		}
		if e.long {
			tl.add("file:line>64KiB")
		}
		if e.longNames {
			tl.add("query:long-names-sharing-a-prefix")
		}
		nt := sh.repeatEvicted && sh.distinct > v09EngineCache && tl.seen["query-matched-by>=2-rules-with-different-results"]
		st.Case(nt, e.entriesText+"\x00"+v09Abbrev(e.file)+"\x00"+v09Keys(probes)+fmt.Sprintf("%d/%d", start, flood), tl.list(), func() string {
			return fmt.Sprintf("%d requests, %d distinct; probes: %s", len(qs), sh.distinct, e.render(probes, len(probes)-1))
		})
		if sh.distinct > maxDistinct {
			maxDistinct = sh.distinct
			st.Extra("max_distinct_requests_in_one_case", maxDistinct)
		}
		if fail != "" {
			rt.Fatalf("C09 engine (eviction): %s", fail)
		}
	})
}

func v09Iota(n int) []int {
	r := make([]int, n)
	for i := range r {
		r[i] = i
	}
	return r
}
