package outbounds

// C08 (policy adapter) — differential: for every destination, aclEngine.CheckUDP
// (used for every later datagram of a session) and aclEngine.UDP (used for the
// first datagram, the dial) must consult the same outbound with the same
// (possibly hijacked) address and agree on accept/reject. Also through
// PluggableOutboundAdapter, which is what core/server calls with address strings.
// The partner of each call is the other call; the outbounds are recording fakes
// with a fixed verdict each, so a disagreement can only come from the dispatch.

import (
	"errors"
	"fmt"
	"net"
	"strings"
	"testing"

	"pgregory.net/rapid"
)

type v08Call struct {
	ob, method, host string
	port             uint16
	ip4, ip6         string
	err              bool
}

func (c v08Call) target() string {
	return fmt.Sprintf("%s(%s:%d v4=%s v6=%s) rejected=%v", c.ob, c.host, c.port, c.ip4, c.ip6, c.err)
}

type v08RecOutbound struct {
	name   string
	reject bool
	log    *[]v08Call
}

var v08ErrReject = errors.New("v08: outbound rejects")

func (o *v08RecOutbound) rec(method string, a *AddrEx) error {
	c := v08Call{ob: o.name, method: method, host: a.Host, port: a.Port, err: o.reject}
	if a.ResolveInfo != nil {
		if a.ResolveInfo.IPv4 != nil {
			c.ip4 = a.ResolveInfo.IPv4.String()
		}
		if a.ResolveInfo.IPv6 != nil {
			c.ip6 = a.ResolveInfo.IPv6.String()
		}
	}
	*o.log = append(*o.log, c)
	if o.reject {
		return v08ErrReject
	}
	return nil
}

func (o *v08RecOutbound) TCP(a *AddrEx) (net.Conn, error) {
	_ = o.rec("TCP", a)
	return nil, errors.New("v08: no TCP here")
}

func (o *v08RecOutbound) UDP(a *AddrEx) (UDPConn, error) {
	if err := o.rec("UDP", a); err != nil {
		return nil, err
	}
	return v08NopConn{}, nil
}

func (o *v08RecOutbound) CheckUDP(a *AddrEx) error { return o.rec("CheckUDP", a) }

type v08NopConn struct{}

func (v08NopConn) ReadFrom(b []byte) (int, *AddrEx, error)  { return 0, nil, errors.New("closed") }
func (v08NopConn) WriteTo(b []byte, a *AddrEx) (int, error) { return len(b), nil }
func (v08NopConn) Close() error                             { return nil }

var (
	v08Hosts    = []string{"a.example.com", "b.example.com", "example.com", "x.test", "EXAMPLE.com.", "1.2.3.4", "1.2.3.200", "10.0.0.7", "2001:db8::1", "deep.a.example.com"}
	v08Patterns = []string{"a.example.com", "example.com", "suffix:example.com", "*.example.com", "*.a.example.com", "all", "*", "x.test", "1.2.3.0/24", "1.2.3.4", "10.0.0.0/8", "2001:db8::/32", "suffix:test", "b.*.com"}
	v08Protos   = []string{"", "*", "udp", "tcp", "udp/53", "tcp/53", "*/53", "udp/50-60", "*/*", "udp/*", "tcp/443", "udp/443", "*/1-1024"}
	v08Ports    = []uint16{53, 443, 55, 50, 60, 61, 1024, 1025, 0, 65535}
)

type v08Dest struct {
	host   string
	port   uint16
	withIP bool
	viaStr bool // through PluggableOutboundAdapter with "host:port"
}

func (d v08Dest) addr() *AddrEx {
	a := &AddrEx{Host: d.host, Port: d.port}
	if d.withIP {
		if ip := net.ParseIP(d.host); ip != nil {
			if ip4 := ip.To4(); ip4 != nil {
				a.ResolveInfo = &ResolveInfo{IPv4: ip4}
			} else {
				a.ResolveInfo = &ResolveInfo{IPv6: ip}
			}
		} else {
			// a resolver stage resolved the name
			a.ResolveInfo = &ResolveInfo{IPv4: net.IPv4(1, 2, 3, byte(len(d.host))).To4()}
		}
	}
	return a
}

func TestVerifC08_CheckUDPvsUDP(t *testing.T) {
	st := newVStats("TestVerifC08_CheckUDPvsUDP")
	defer st.Flush()
	rapid.Check(t, func(rt *rapid.T) {
		var log []v08Call
		nOb := rapid.IntRange(1, 3).Draw(rt, "outbounds")
		names := []string{}
		var entries []OutboundEntry
		for i := 0; i < nOb; i++ {
			n := fmt.Sprintf("ob%d", i)
			names = append(names, n)
			entries = append(entries, OutboundEntry{n, &v08RecOutbound{name: n, reject: rapid.IntRange(0, 3).Draw(rt, "obRejects") == 0, log: &log}})
		}
		// "direct" would open a real socket: always replaced by a recorder. "reject" stays built in.
		entries = append(entries, OutboundEntry{"direct", &v08RecOutbound{name: "direct", log: &log}})
		names = append(names, "direct", "reject", "default", "Reject", "DIRECT")
		nRules := rapid.IntRange(0, 8).Draw(rt, "rules")
		var lines []string
		filtered := false
		for i := 0; i < nRules; i++ {
			ob := rapid.SampledFrom(names).Draw(rt, "ruleOutbound")
			pat := rapid.SampledFrom(v08Patterns).Draw(rt, "rulePattern")
			pp := rapid.SampledFrom(v08Protos).Draw(rt, "ruleProtoPort")
			if pp != "" && pp != "*" && pp != "*/*" {
				filtered = true
			}
			line := ob + "(" + pat
			hij := ""
			if rapid.IntRange(0, 5).Draw(rt, "hijack") == 0 {
				hij = rapid.SampledFrom([]string{"9.9.9.9", "2001:db8::99"}).Draw(rt, "hijackTo")
			}
			if pp != "" || hij != "" {
				if pp == "" {
					pp = "*"
				}
				line += "," + pp
			}
			if hij != "" {
				line += "," + hij
			}
			lines = append(lines, line+")")
		}
		text := strings.Join(lines, "\n")
		eng, err := NewACLEngineFromString(text, entries, nil)
		if err != nil {
			rt.Fatalf("harness: generated rules do not compile: %v\n%s", err, text)
		}
		adapter := &PluggableOutboundAdapter{PluggableOutbound: eng}
		nDest := rapid.IntRange(1, 12).Draw(rt, "destinations")
		chosen := map[string]bool{}
		var trace []string
		for i := 0; i < nDest; i++ {
			d := v08Dest{host: rapid.SampledFrom(v08Hosts).Draw(rt, "host"), port: rapid.SampledFrom(v08Ports).Draw(rt, "port"),
				withIP: rapid.Bool().Draw(rt, "resolved"), viaStr: rapid.Bool().Draw(rt, "viaAdapter")}
			if d.viaStr {
				d.withIP = false
			}
			order := rapid.IntRange(0, 2).Draw(rt, "order") // 0: UDP first, 1: CheckUDP first, 2: a TCP lookup in between
			do := func(method string) (v08Call, bool) {
				before := len(log)
				var e error
				switch {
				case d.viaStr && method == "UDP":
					_, e = adapter.UDP(net.JoinHostPort(d.host, fmt.Sprint(d.port)))
				case d.viaStr && method == "CheckUDP":
					e = adapter.CheckUDP(net.JoinHostPort(d.host, fmt.Sprint(d.port)))
				case method == "UDP":
					_, e = eng.UDP(d.addr())
				case method == "CheckUDP":
					e = eng.CheckUDP(d.addr())
				default:
					_, _ = eng.TCP(d.addr())
					return v08Call{}, false
				}
				if len(log) == before {
					// no recording outbound was consulted: the built-in reject outbound
					return v08Call{ob: "<reject>", method: method, err: e != nil}, true
				}
				c := log[len(log)-1]
				if (e != nil) != c.err {
					rt.Fatalf("harness: %s returned err=%v but the consulted outbound %s has rejected=%v", method, e, c.ob, c.err)
				}
				return c, true
			}
			var u, c v08Call
			switch order {
			case 0:
				u, _ = do("UDP")
				c, _ = do("CheckUDP")
			case 1:
				c, _ = do("CheckUDP")
				u, _ = do("UDP")
			default:
				c, _ = do("CheckUDP")
				do("TCP")
				u, _ = do("UDP")
				c2, _ := do("CheckUDP")
				if c2.target() != c.target() {
					rt.Fatalf("C08: CheckUDP(%s:%d) is not stable: first %s, later %s\nrules:\n%s", d.host, d.port, c.target(), c2.target(), text)
				}
			}
			chosen[u.ob] = true
			trace = append(trace, fmt.Sprintf("%s:%d->%s", d.host, d.port, u.ob))
			if u.target() != c.target() {
				rt.Fatalf("C08: for destination %s:%d (resolved=%v, via adapter=%v) UDP() consulted %s but CheckUDP() consulted %s: the first datagram and later datagrams are judged by different policies\nrules:\n%s",
					d.host, d.port, d.withIP, d.viaStr, u.target(), c.target(), text)
			}
		}
		cls := []string{fmt.Sprintf("rules=%d", nRules)}
		if filtered {
			cls = append(cls, "proto/port-filtered-rule")
		}
		if chosen["<reject>"] {
			cls = append(cls, "builtin-reject-chosen")
		}
		if len(chosen) >= 2 {
			cls = append(cls, "outbounds-chosen>=2")
		}
		st.Case(filtered && len(chosen) >= 2, text+"|"+strings.Join(trace, ","), cls, func() string {
			return fmt.Sprintf("rules: %s ; %s", strings.Join(lines, " "), strings.Join(trace, " "))
		})
	})
}
