package realm

// C03 — the composition behind the shared realm socket, as production wires it
// (app/cmd/server.go): one UDP socket wrapped in PunchPacketConn (event buffer 0 =
// default 16) is read by quic-go's ReadFrom loop; its STUN event channel is consumed
// by DiscoverWithDemux (periodic address refresh), its punch event channel by
// ServerPuncher (dispatch goroutine + Respond per attempt).
//
// A remote peer controls the datagrams that arrive between and during those calls.
// The harness plays the socket, the network (scripted STUN servers that answer
// validly / with junk / with junk carrying the right transaction id / not at all,
// a punching peer) and quic-go's reader:
//
//	phase A   hostile datagrams are read through ReadFrom with nobody consuming the
//	          event channels ("datagram now, discovery later");
//	rounds    DiscoverWithDemux / ServerPuncher.Respond run in the test goroutine
//	          (panic recovered) while a harness goroutine feeds the scripted
//	          datagrams through ReadFrom, interleaved with the consumer;
//	probe     an ordinary packet reaches ReadFrom, a discovery against a well-behaved
//	          server succeeds, a punch round with a valid Ack succeeds.
//
// No wall-clock correctness: rounds in which every server answers validly run with a
// 60 s timeout and must succeed (they return as soon as the last answer is consumed);
// the other rounds are ended by cancelling the parent context once the feeder is done
// and the event queue is empty, and nothing is asserted about their result. A valid
// answer is only fed when the event channel has room (as the only producer, the
// feeder then knows it is not dropped).
//
// Oracle: no panic; every call returns; the probes succeed.

import (
	"bytes"
	"context"
	"fmt"
	"net"
	"net/netip"
	"strings"
	"sync"
	"sync/atomic"
	"testing"
	"time"

	"pgregory.net/rapid"
)

// ---- concurrent scripted socket ----

type v03DSock struct {
	mu     sync.Mutex
	queue  []v03Pkt
	onSend func(p []byte, to net.Addr)
}

var v03ErrSockEmpty = fmt.Errorf("v03: nothing more to read (harness fed everything)")

func (s *v03DSock) push(p v03Pkt) {
	s.mu.Lock()
	s.queue = append(s.queue, p)
	s.mu.Unlock()
}

func (s *v03DSock) ReadFrom(p []byte) (int, net.Addr, error) {
	s.mu.Lock()
	defer s.mu.Unlock()
	if len(s.queue) == 0 {
		return 0, nil, v03ErrSockEmpty
	}
	k := s.queue[0]
	s.queue = s.queue[1:]
	return copy(p, k.data), k.src, nil
}

func (s *v03DSock) WriteTo(p []byte, a net.Addr) (int, error) {
	if s.onSend != nil {
		s.onSend(append([]byte(nil), p...), a)
	}
	return len(p), nil
}
func (s *v03DSock) Close() error { return nil }
func (s *v03DSock) LocalAddr() net.Addr {
	return &net.UDPAddr{IP: net.IPv4(192, 0, 2, 1), Port: 4433}
}
func (s *v03DSock) SetDeadline(time.Time) error      { return nil }
func (s *v03DSock) SetReadDeadline(time.Time) error  { return nil }
func (s *v03DSock) SetWriteDeadline(time.Time) error { return nil }

type v03MultiResolver struct{}

// stun<N>.test -> 198.51.100.(60+N)
func (v03MultiResolver) LookupIPAddr(_ context.Context, host string) ([]net.IPAddr, error) {
	n := 0
	fmt.Sscanf(host, "stun%d.test", &n)
	return []net.IPAddr{{IP: net.IPv4(198, 51, 100, byte(60+n))}}, nil
}

// ---- hostile STUN-looking datagrams ----

// v03GenSTUNHostile: everything with a STUN cookie that is NOT a usable binding success, plus a few that are.
func v03GenSTUNHostile(rt *rapid.T, txid [12]byte) ([]byte, string) {
	switch rapid.IntRange(0, 9).Draw(rt, "stunHostile") {
	case 0:
		return v03STUN(0x0001, 0, v03Cookie, txid, nil), "stun binding request"
	case 1:
		return v03STUN(0x0011, 0, v03Cookie, txid, nil), "stun binding indication"
	case 2: // error response with ERROR-CODE 401
		return v03STUN(0x0111, 0, v03Cookie, txid, []v03Attr{{0x0009, []byte{0, 0, 4, 1, 'n', 'o'}, -1}}), "stun binding error response"
	case 3:
		return v03STUN(0x0101, 0, v03Cookie, txid, nil), "stun success without address"
	case 4:
		return v03STUN(0x0101, 0, v03Cookie, txid, []v03Attr{{0x8022, []byte("software"), -1}}), "stun success with SOFTWARE only"
	case 5:
		full := v03GoodSTUN(txid)
		cut := rapid.IntRange(20, len(full)-1).Draw(rt, "stunCut")
		return full[:cut], fmt.Sprintf("stun success truncated at %d (length field not adjusted)", cut)
	case 6:
		return v03STUN(0x0101, 0, v03Cookie, txid, []v03Attr{{0x0020, v03XorMapped(1, []byte{9, 9, 9, 9}, 0x2112, txid), -1}}), "stun success with port 0"
	case 7:
		return v03STUN(0x0003, 0, v03Cookie, txid, []v03Attr{{0x000d, []byte{0, 0, 2, 88}, -1}}), "turn allocate request"
	case 8:
		return v03GenSTUNLike(rt, [][12]byte{txid})
	default:
		return v03STUN(0x0101, 0, v03Cookie, txid, []v03Attr{{0x0020, v03XorMapped(1, []byte{198, 18, 0, byte(rapid.IntRange(1, 9).Draw(rt, "fakeIP"))}, 1234, txid), -1}}), "stun success with some other address"
	}
}

func v03GenDemuxHostile(rt *rapid.T, metas []v03Meta) v03Pkt {
	src := v03GenSrc(rt)
	if rapid.IntRange(0, 9).Draw(rt, "demuxKind") < 6 {
		var txid [12]byte
		copy(txid[:], v03Fill(12, rapid.Byte().Draw(rt, "strayTx")))
		d, desc := v03GenSTUNHostile(rt, txid)
		return v03Pkt{src, d, desc}
	}
	d, desc := v03GenAnyPacket(rt, metas, nil)
	return v03Pkt{src, d, desc}
}

// ---- case ----

type v03Item struct {
	// exactly one of:
	hostile  *v03Pkt // any datagram from anybody
	server   int     // >=0: reply of STUN server #server (kind below)
	kind     string  // "valid", "junk-txid" (hostile STUN with the request's transaction id), "junk"
	junk     []byte  // template for junk-txid/junk (transaction id patched in for junk-txid)
	junkDesc string
	punch    string // "hello", "ack": a valid punch packet of the round's attempt
}

type v03Round struct {
	respond  bool
	nServers int
	items    []v03Item
	// derived
	assertable bool
}

type v03DemuxCase struct {
	evBuf  int
	bufSz  int
	phaseA []v03Pkt
	rounds []v03Round
	metas  []v03Meta
}

func v03GenRound(rt *rapid.T, metas []v03Meta) v03Round {
	r := v03Round{respond: rapid.IntRange(0, 3).Draw(rt, "respondRound") == 3}
	var items []v03Item
	if r.respond {
		switch rapid.SampledFrom([]string{"hello", "ack", "none"}).Draw(rt, "punchEnding") {
		case "hello":
			items = append(items, v03Item{server: -1, punch: "hello"})
			r.assertable = true
		case "ack":
			items = append(items, v03Item{server: -1, punch: "ack"})
			r.assertable = true
		}
	} else {
		r.nServers = rapid.IntRange(1, 3).Draw(rt, "nServers")
		r.assertable = true
		for s := 0; s < r.nServers; s++ {
			switch rapid.SampledFrom([]string{"valid", "valid", "junk-txid+valid", "junk-txid", "junk", "none"}).Draw(rt, "serverBehaviour") {
			case "valid":
				items = append(items, v03Item{server: s, kind: "valid"})
			case "junk-txid+valid":
				d, desc := v03GenSTUNHostile(rt, [12]byte{})
				items = append(items, v03Item{server: s, kind: "junk-txid", junk: d, junkDesc: desc}, v03Item{server: s, kind: "valid"})
			case "junk-txid":
				d, desc := v03GenSTUNHostile(rt, [12]byte{})
				items = append(items, v03Item{server: s, kind: "junk-txid", junk: d, junkDesc: desc})
				r.assertable = false
			case "junk":
				d, desc := v03GenAnyPacket(rt, metas, nil)
				items = append(items, v03Item{server: s, kind: "junk", junk: d, junkDesc: desc})
				r.assertable = false
			default:
				r.assertable = false
			}
		}
	}
	for k := rapid.IntRange(0, 6).Draw(rt, "nInterleaved"); k > 0; k-- {
		h := v03GenDemuxHostile(rt, metas)
		items = append(items, v03Item{server: -1, hostile: &h})
	}
	if len(items) > 1 {
		items = rapid.Permutation(items).Draw(rt, "order")
		// a server's junk-with-txid stays before its valid answer only by chance: both orders are legitimate
	}
	r.items = items
	return r
}

func v03GenDemuxCase(rt *rapid.T) *v03DemuxCase {
	c := &v03DemuxCase{evBuf: rapid.SampledFrom([]int{0, 0, 1, 64}).Draw(rt, "eventBuffer"), bufSz: rapid.SampledFrom([]int{1452, 2048}).Draw(rt, "bufSize")}
	for k := rapid.IntRange(0, 2).Draw(rt, "nStaleAttempts"); k > 0; k-- {
		c.metas = append(c.metas, v03NewMeta(byte(10*k)))
	}
	for k := rapid.IntRange(0, 20).Draw(rt, "nPhaseA"); k > 0; k-- {
		c.phaseA = append(c.phaseA, v03GenDemuxHostile(rt, c.metas))
	}
	for k := rapid.IntRange(1, 3).Draw(rt, "nRounds"); k > 0; k-- {
		c.rounds = append(c.rounds, v03GenRound(rt, c.metas))
	}
	return c
}

func (c *v03DemuxCase) render() string {
	var sb strings.Builder
	fmt.Fprintf(&sb, "eventBuffer=%d readerBuffer=%d staleAttempts=%d\nphase A (read with nobody consuming events):\n%s", c.evBuf, c.bufSz, len(c.metas), v03RenderScript(c.phaseA))
	for i, r := range c.rounds {
		if r.respond {
			fmt.Fprintf(&sb, "round %d: ServerPuncher.Respond, fed meanwhile:\n", i)
		} else {
			fmt.Fprintf(&sb, "round %d: DiscoverWithDemux against %d STUN servers, fed meanwhile:\n", i, r.nServers)
		}
		for j, it := range r.items {
			switch {
			case it.hostile != nil:
				fmt.Fprintf(&sb, "  #%d from %v: %s : %s\n", j, it.hostile.src, it.hostile.desc, v03Hex(it.hostile.data))
			case it.punch != "":
				fmt.Fprintf(&sb, "  #%d peer: valid punch %s\n", j, it.punch)
			case it.kind == "valid":
				fmt.Fprintf(&sb, "  #%d server %d: valid binding success for its transaction\n", j, it.server)
			default:
				fmt.Fprintf(&sb, "  #%d server %d: %s: %s : %s\n", j, it.server, it.kind, it.junkDesc, v03Hex(it.junk))
			}
		}
	}
	return sb.String()
}

// ---- runner ----

var v03DemuxMarker = append([]byte{0x44}, []byte("c03-demux-marker")...)

type v03DemuxRun struct {
	c        *v03DemuxCase
	sock     *v03DSock
	conn     *PunchPacketConn
	puncher  *ServerPuncher
	buf      []byte
	passed   int // datagrams handed to "quic-go"
	stunSent chan [12]byte
	punchOn  chan struct{}
}

// pump feeds one datagram and reads (as quic-go does) until the marker comes back.
func (r *v03DemuxRun) pump(p v03Pkt) error {
	r.sock.push(p)
	r.sock.push(v03Pkt{&net.UDPAddr{IP: net.IPv4(203, 0, 113, 99), Port: 9}, v03DemuxMarker, "marker"})
	for i := 0; i < 4; i++ {
		n, _, err := r.conn.ReadFrom(r.buf)
		if err != nil {
			return fmt.Errorf("ReadFrom returned %v before the marker packet came through", err)
		}
		if bytes.Equal(r.buf[:n], v03DemuxMarker) {
			return nil
		}
		r.passed++
	}
	return fmt.Errorf("the ordinary marker packet did not come through ReadFrom")
}

func (r *v03DemuxRun) waitRoom(stop *atomic.Bool, ch func() (int, int)) {
	deadline := time.Now().Add(60 * time.Second)
	for {
		l, c := ch()
		if l < c || stop.Load() {
			return
		}
		if time.Now().After(deadline) {
			vInconclusive("C03 demux: the event consumer did not make room within 60 s")
		}
		time.Sleep(20 * time.Microsecond)
	}
}

// round runs one consumer call with the feeder goroutine next to it. Returns (class, violation).
func (r *v03DemuxRun) round(rd v03Round, idx int, probeMeta v03Meta) (string, error) {
	parent, cancel := context.WithCancel(context.Background())
	defer cancel()
	var stop atomic.Bool
	r.stunSent = make(chan [12]byte, 8)
	r.punchOn = make(chan struct{}, 64)
	peer := &net.UDPAddr{IP: net.IPv4(203, 0, 113, 9), Port: 9999}

	feedDone := make(chan struct{})
	var feedPanic any
	var feedStack string
	var feedErr error
	go func() {
		defer close(feedDone)
		feedPanic, feedStack = v03Guard(func() {
			// the requests / first hellos have to be on the wire before anybody can answer them
			var txids [][12]byte
			if rd.respond {
				select {
				case <-r.punchOn:
				case <-parent.Done():
				}
			} else {
				for len(txids) < rd.nServers {
					select {
					case id := <-r.stunSent:
						txids = append(txids, id)
					case <-parent.Done():
						return
					}
				}
			}
			for _, it := range rd.items {
				var p v03Pkt
				must := false
				switch {
				case it.hostile != nil:
					p = *it.hostile
				case it.punch != "":
					typ := byte(1)
					if it.punch == "ack" {
						typ = 2
					}
					p, must = v03Pkt{peer, v03GoodPunch(probeMeta, typ, 7), "valid punch " + it.punch}, true
				case it.kind == "valid":
					p, must = v03Pkt{&net.UDPAddr{IP: net.IPv4(198, 51, 100, byte(60+it.server)), Port: 3478}, v03GoodSTUN(txids[it.server]), "valid answer"}, true
				default:
					d := append([]byte(nil), it.junk...)
					if it.kind == "junk-txid" && len(d) >= 20 {
						copy(d[8:20], txids[it.server][:])
					}
					p = v03Pkt{&net.UDPAddr{IP: net.IPv4(198, 51, 100, byte(60+it.server)), Port: 3478}, d, it.kind}
				}
				if must {
					if rd.respond {
						r.waitRoom(&stop, func() (int, int) { return len(r.conn.events), cap(r.conn.events) })
					} else {
						r.waitRoom(&stop, func() (int, int) { return len(r.conn.stun), cap(r.conn.stun) })
					}
				}
				if err := r.pump(p); err != nil {
					feedErr = err
					return
				}
			}
			if !rd.assertable {
				// nothing (more) useful will arrive: let the consumer take what is queued, then end its wait
				deadline := time.Now().Add(5 * time.Millisecond)
				for (len(r.conn.stun) > 0 && !rd.respond) && !stop.Load() && time.Now().Before(deadline) {
					time.Sleep(20 * time.Microsecond)
				}
				if rd.respond {
					time.Sleep(200 * time.Microsecond)
				}
				cancel()
			}
		})
		if feedPanic != nil || feedErr != nil {
			cancel() // do not leave the consumer waiting for answers that will never be fed
		}
	}()

	var err error
	var addrs []netip.AddrPort
	var res PunchResult
	what := "DiscoverWithDemux"
	pv, stack := v03Guard(func() {
		if rd.respond {
			what = "ServerPuncher.Respond"
			res, err = r.puncher.Respond(parent, fmt.Sprintf("attempt-r%d", idx), []netip.AddrPort{netip.MustParseAddrPort("192.0.2.1:4433")},
				[]netip.AddrPort{netip.MustParseAddrPort("203.0.113.9:9999")}, probeMeta.meta(), PunchConfig{Timeout: 60 * time.Second, Interval: time.Hour})
			return
		}
		var servers []string
		for s := 0; s < rd.nServers; s++ {
			servers = append(servers, fmt.Sprintf("stun%d.test:3478", s))
		}
		addrs, err = DiscoverWithDemux(parent, r.conn, STUNConfig{Servers: servers, Timeout: 60 * time.Second, Resolver: v03MultiResolver{}})
	})
	stop.Store(true)
	if pv != nil {
		cancel()
		<-feedDone
		return "PANIC", fmt.Errorf("%s panicked in round %d: %v\n%s%s", what, idx, pv, r.c.render(), stack)
	}
	select {
	case <-feedDone:
	case <-time.After(60 * time.Second):
		vInconclusive("C03 demux: the feeder did not finish within 60 s")
	}
	if feedPanic != nil {
		return "PANIC", fmt.Errorf("PunchPacketConn.ReadFrom panicked while %s was running (round %d): %v\n%s%s", what, idx, feedPanic, r.c.render(), feedStack)
	}
	if feedErr != nil {
		return "", fmt.Errorf("round %d: %v\n%s", idx, feedErr, r.c.render())
	}
	cls := "discover"
	if rd.respond {
		cls = "respond"
	}
	if rd.assertable {
		if rd.respond {
			if err != nil || res.PeerAddr != netip.MustParseAddrPort("203.0.113.9:9999") {
				return cls, fmt.Errorf("service did not continue: Respond returned (%+v, %v) although a valid punch packet of its attempt arrived (round %d)\n%s", res, err, idx, r.c.render())
			}
		} else if err != nil || len(addrs) == 0 {
			return cls, fmt.Errorf("service did not continue: DiscoverWithDemux returned (%v, %v) although every STUN server answered its transaction validly (round %d)\n%s", addrs, err, idx, r.c.render())
		}
		return cls + ":must-succeed", nil
	}
	if err == nil {
		return cls + ":free:result", nil
	}
	return cls + ":free:error", nil
}

func v03RunDemux(c *v03DemuxCase) (classes []string, verr error) {
	r := &v03DemuxRun{c: c, sock: &v03DSock{}, buf: make([]byte, c.bufSz)}
	r.sock.onSend = func(p []byte, to net.Addr) {
		if len(p) == 20 && p[0]&0xC0 == 0 && bytes.Equal(p[4:8], []byte{0x21, 0x12, 0xA4, 0x42}) {
			var id [12]byte
			copy(id[:], p[8:20])
			select {
			case r.stunSent <- id:
			default:
			}
			return
		}
		select {
		case r.punchOn <- struct{}{}:
		default:
		}
	}
	ctx, cancelAll := context.WithCancel(context.Background())
	defer cancelAll() // stops ServerPuncher's dispatch goroutine
	pv, stack := v03Guard(func() {
		var err error
		if r.conn, err = NewPunchPacketConn(r.sock, c.evBuf); err != nil {
			panic(err)
		}
		for i, m := range c.metas {
			if err := r.conn.AddPunchAttempt(fmt.Sprintf("stale-%d", i), m.meta()); err != nil {
				panic(err)
			}
		}
	})
	if pv != nil {
		return nil, fmt.Errorf("setting up the PunchPacketConn panicked: %v\n%s", pv, stack)
	}
	// phase A: datagrams now, consumers later
	for i, p := range c.phaseA {
		var perr error
		pv, stack := v03Guard(func() { perr = r.pump(p) })
		if pv != nil {
			return nil, fmt.Errorf("PunchPacketConn.ReadFrom panicked in phase A at datagram #%d: %v\n%s%s", i, pv, c.render(), stack)
		}
		if perr != nil {
			return nil, fmt.Errorf("phase A datagram #%d: %v\n%s", i, perr, c.render())
		}
	}
	if len(r.conn.stun) > 0 {
		classes = append(classes, "stun-events-waiting-before-discovery")
	}
	pv, stack = v03Guard(func() {
		var err error
		if r.puncher, err = NewServerPuncher(ctx, r.conn); err != nil {
			panic(err)
		}
	})
	if pv != nil {
		return nil, fmt.Errorf("NewServerPuncher panicked: %v\n%s%s", pv, c.render(), stack)
	}
	for i, rd := range c.rounds {
		cls, err := r.round(rd, i, v03NewMeta(byte(150+i)))
		if err != nil {
			return nil, err
		}
		classes = append(classes, cls)
	}
	// probes
	ordinary := append([]byte{0x43}, v03Fill(60, 8)...)
	before := r.passed
	var perr error
	pv, stack = v03Guard(func() { perr = r.pump(v03Pkt{&net.UDPAddr{IP: net.IPv4(203, 0, 113, 50), Port: 50000}, ordinary, "probe ordinary"}) })
	if pv != nil || perr != nil || r.passed != before+1 {
		return nil, fmt.Errorf("service did not continue: an ordinary packet after the history did not reach the reader (panic=%v err=%v passed=%d)\n%s%s", pv, perr, r.passed-before, c.render(), stack)
	}
	if _, err := r.round(v03Round{nServers: 1, items: []v03Item{{server: 0, kind: "valid"}}, assertable: true}, 100, v03Meta{}); err != nil {
		return nil, fmt.Errorf("final discovery probe: %v", err)
	}
	if _, err := r.round(v03Round{respond: true, items: []v03Item{{server: -1, punch: "ack"}}, assertable: true}, 101, v03NewMeta(199)); err != nil {
		return nil, fmt.Errorf("final punch probe: %v", err)
	}
	return classes, nil
}

func TestVerifC03_RealmDemuxRounds(t *testing.T) {
	st := newVStats("TestVerifC03_RealmDemuxRounds")
	defer st.Flush()
	rapid.Check(t, func(rt *rapid.T) {
		c := v03GenDemuxCase(rt)
		classes, err := v03RunDemux(c)
		stunny := 0
		for _, p := range c.phaseA {
			if strings.HasPrefix(p.desc, "stun") || strings.HasPrefix(p.desc, "turn") {
				stunny++
			}
		}
		// NT: STUN-looking datagrams were demultiplexed before a discovery ran, or a round had interleaved traffic
		nt := stunny > 0
		for _, rd := range c.rounds {
			if len(rd.items) > 1 {
				nt = true
			}
		}
		st.Case(nt, c.render(), classes, c.render)
		if err != nil {
			rt.Fatalf("C03: %v", err)
		}
	})
}

// v03DemuxAfterDatagram: the two-step composition for one fuzzed datagram: it is read through the
// demultiplexer (nobody consuming), then a discovery against a well-behaved server must succeed.
func v03DemuxAfterDatagram(data []byte) error {
	c := &v03DemuxCase{evBuf: 0, bufSz: 1452, phaseA: []v03Pkt{{&net.UDPAddr{IP: net.IPv4(1, 2, 3, 4), Port: 5}, data, "fuzz"}},
		metas: []v03Meta{v03NewMeta(1)}}
	_, err := v03RunDemux(c)
	return err
}
