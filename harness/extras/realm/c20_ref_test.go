package realm

// C20 — hole-punch demux diverts only punch/STUN packets.
//
// This file holds everything the C20 checks share and that must NOT depend on
// the code under test:
//   * an independent punch-packet encoder/decoder (wire format read from
//     punch.go: salt[8] || (magic[8] type[1] nonce[16] padding[0..1024]) XOR
//     SHA-256(key||salt) repeated),
//   * an independent STUN classifier written from RFC 5389 (header, reserved
//     bits, magic cookie, length, attribute walk, (XOR-)MAPPED-ADDRESS),
//   * the reference classifier "may this packet be withheld / must it be",
//   * packet builders, a fake inner net.PacketConn, and the judge that compares
//     what ReadFrom/Events()/STUNEvents() produced with what was injected.

import (
	"bytes"
	"crypto/sha256"
	"encoding/binary"
	"encoding/hex"
	"errors"
	"fmt"
	"net"
	"net/netip"
	"strings"
	"sync"
	"time"

	"github.com/pion/stun/v3"
	"pgregory.net/rapid"
)

// ---------------------------------------------------------------- bytes

// vC20Fill expands a rapid-drawn seed into n bytes (splitmix64). All
// randomness comes from the drawn seed.
func vC20Fill(seed uint64, n int) []byte {
	b := make([]byte, n)
	x := seed
	for i := 0; i < n; i += 8 {
		x += 0x9E3779B97F4A7C15
		z := x
		z = (z ^ (z >> 30)) * 0xBF58476D1CE4E5B9
		z = (z ^ (z >> 27)) * 0x94D049BB133111EB
		z ^= z >> 31
		for j := 0; j < 8 && i+j < n; j++ {
			b[i+j] = byte(z >> (8 * j))
		}
	}
	return b
}

func vC20Hex(b []byte) string {
	if len(b) <= 96 {
		return hex.EncodeToString(b)
	}
	return fmt.Sprintf("%s…(%d bytes)…%s", hex.EncodeToString(b[:64]), len(b), hex.EncodeToString(b[len(b)-8:]))
}

// ---------------------------------------------------------------- punch codec (independent)

const (
	vC20SaltLen   = 8
	vC20HeaderLen = 8 + 1 + 16
	vC20MinWire   = vC20SaltLen + vC20HeaderLen // 33
	vC20MaxPad    = 1024
	vC20MaxWire   = vC20MinWire + vC20MaxPad // 1057
	vC20Hello     = 0x01
	vC20Ack       = 0x02
)

var vC20Magic = []byte{'H', 'Y', 'R', 'L', 'M', 'v', '1', 0}

type vC20Meta struct {
	nonce [16]byte
	key   [32]byte
	upper bool // render hex in upper case (same metadata, different spelling)
}

func (m vC20Meta) pm() PunchMetadata {
	n, k := hex.EncodeToString(m.nonce[:]), hex.EncodeToString(m.key[:])
	if m.upper {
		n, k = strings.ToUpper(n), strings.ToUpper(k)
	}
	return PunchMetadata{Nonce: n, Obfs: k}
}

func (m vC20Meta) same(o vC20Meta) bool { return m.nonce == o.nonce && m.key == o.key }

func (m vC20Meta) String() string {
	return fmt.Sprintf("{nonce=%x key=%x}", m.nonce, m.key)
}

func vC20Mask(key [32]byte, salt []byte) [32]byte {
	h := sha256.New()
	h.Write(key[:])
	h.Write(salt)
	var out [32]byte
	copy(out[:], h.Sum(nil))
	return out
}

// vC20Encode builds the wire bytes for any type byte and any padding (also
// out-of-range ones, which a conforming decoder must refuse).
func vC20Encode(typ byte, m vC20Meta, salt []byte, pad []byte) []byte {
	if len(salt) != vC20SaltLen {
		panic("harness: salt length")
	}
	out := make([]byte, 0, vC20MinWire+len(pad))
	out = append(out, salt...)
	out = append(out, vC20Magic...)
	out = append(out, typ)
	out = append(out, m.nonce[:]...)
	out = append(out, pad...)
	mask := vC20Mask(m.key, salt)
	for i := vC20SaltLen; i < len(out); i++ {
		out[i] ^= mask[(i-vC20SaltLen)%32]
	}
	return out
}

// vC20Decode is the reference decoder: ok iff the packet is a punch packet under m.
func vC20Decode(pkt []byte, m vC20Meta) (typ byte, pad int, ok bool) {
	if len(pkt) < vC20MinWire || len(pkt) > vC20MaxWire {
		return 0, 0, false
	}
	mask := vC20Mask(m.key, pkt[:vC20SaltLen])
	var hdr [vC20HeaderLen]byte
	for i := 0; i < vC20HeaderLen; i++ {
		hdr[i] = pkt[vC20SaltLen+i] ^ mask[i%32]
	}
	if !bytes.Equal(hdr[:8], vC20Magic) {
		return 0, 0, false
	}
	if hdr[8] != vC20Hello && hdr[8] != vC20Ack {
		return 0, 0, false
	}
	if !bytes.Equal(hdr[9:25], m.nonce[:]) {
		return 0, 0, false
	}
	return hdr[8], len(pkt) - vC20MinWire, true
}

// region of a wire offset: salt, magic, type, nonce, padding.
func vC20Region(off int) string {
	switch {
	case off < 8:
		return "salt"
	case off < 16:
		return "magic"
	case off < 17:
		return "type"
	case off < 33:
		return "nonce"
	default:
		return "padding"
	}
}

// vC20RegionOffset picks an offset in the named region of a packet of length n
// (pick is reduced modulo the region size). ok=false if the region is empty.
func vC20RegionOffset(region string, n int, pick int) (int, bool) {
	lo, hi := 0, 0
	switch region {
	case "salt":
		lo, hi = 0, 8
	case "magic":
		lo, hi = 8, 16
	case "type":
		lo, hi = 16, 17
	case "nonce":
		lo, hi = 17, 33
	case "padding":
		lo, hi = 33, n
	}
	if hi > n {
		hi = n
	}
	if hi <= lo {
		return 0, false
	}
	return lo + pick%(hi-lo), true
}

// ---------------------------------------------------------------- STUN (independent, RFC 5389)

type vC20Verdict int

const (
	vC20MustPass   vC20Verdict = iota // must be returned by ReadFrom
	vC20May                           // the statement allows withholding, nothing requires it
	vC20MustDivert                    // must be withheld (and produce an event while there is room)
)

func (v vC20Verdict) String() string {
	return [...]string{"must-pass", "may", "must-divert"}[v]
}

const vC20Cookie = 0x2112A442

type vC20Stun struct {
	verdict  vC20Verdict
	label    string
	txid     [12]byte
	addr     netip.AddrPort // mapped address (verdict must-divert only)
	reserved bool           // binding-success look-alike whose two most significant bits are not zero
}

// vC20ClassifySTUN decides, from the bytes alone, whether a datagram is "a STUN
// binding response" in the sense of the statement.
//
//	must-pass   : not a STUN message, or a STUN message that is not a Binding response,
//	              or a truncated one (declared length exceeds the datagram);
//	may         : a Binding response the demux is allowed but not required to take
//	              (error response, no/odd mapped address, trailing bytes, malformed attributes);
//	must-divert : canonical Binding success response carrying a usable (XOR-)MAPPED-ADDRESS.
func vC20ClassifySTUN(b []byte) vC20Stun {
	if len(b) < 20 || binary.BigEndian.Uint32(b[4:8]) != vC20Cookie {
		return vC20Stun{verdict: vC20MustPass, label: "not-stun"}
	}
	var s vC20Stun
	copy(s.txid[:], b[8:20])
	typ := binary.BigEndian.Uint16(b[0:2])
	if typ&0xC000 != 0 {
		// RFC 5389 §6: "The most significant 2 bits of every STUN message MUST be
		// zeroes. This can be used to differentiate STUN packets from other
		// protocols when STUN is multiplexed with other protocols on the same
		// port." 0x40.. is a QUIC short header, 0xC0.. a QUIC long header.
		s.verdict, s.label = vC20MustPass, "stun-topbits-other"
		if typ&0x3FFF == 0x0101 {
			s.label, s.reserved = "stun-reserved-bits", true
		}
		return s
	}
	if typ != 0x0101 && typ != 0x0111 {
		s.verdict, s.label = vC20MustPass, "stun-not-binding-response"
		return s
	}
	L := int(binary.BigEndian.Uint16(b[2:4]))
	if 20+L > len(b) {
		s.verdict, s.label = vC20MustPass, "stun-truncated"
		return s
	}
	s.verdict = vC20May
	if typ == 0x0111 {
		s.label = "stun-binding-error"
		return s
	}
	if 20+L < len(b) {
		s.label = "stun-trailing-bytes"
		return s
	}
	if L%4 != 0 {
		s.label = "stun-unaligned-length"
		return s
	}
	var xorV, mapV []byte
	hasXor, hasMap := false, false
	off, end := 20, 20+L
	for off < end {
		if end-off < 4 {
			s.label = "stun-malformed-attrs"
			return s
		}
		at := binary.BigEndian.Uint16(b[off:])
		al := int(binary.BigEndian.Uint16(b[off+2:]))
		padded := (al + 3) &^ 3
		if off+4+padded > end {
			s.label = "stun-malformed-attrs"
			return s
		}
		v := b[off+4 : off+4+al]
		switch at {
		case 0x0020:
			if !hasXor {
				xorV, hasXor = v, true
			}
		case 0x0001:
			if !hasMap {
				mapV, hasMap = v, true
			}
		case 0x8020:
			s.label = "stun-legacy-xor-attr"
			return s
		}
		off += 4 + padded
	}
	parse := func(v []byte, xor bool) (netip.AddrPort, bool) {
		if len(v) < 4 || v[0] != 0 {
			return netip.AddrPort{}, false
		}
		port := binary.BigEndian.Uint16(v[2:4])
		var mask [16]byte
		if xor {
			port ^= vC20Cookie >> 16
			binary.BigEndian.PutUint32(mask[0:4], vC20Cookie)
			copy(mask[4:], s.txid[:])
		}
		switch {
		case v[1] == 0x01 && len(v) == 8:
			var a [4]byte
			for i := range a {
				a[i] = v[4+i] ^ mask[i]
			}
			return netip.AddrPortFrom(netip.AddrFrom4(a), port), port != 0
		case v[1] == 0x02 && len(v) == 20:
			var a [16]byte
			for i := range a {
				a[i] = v[4+i] ^ mask[i]
			}
			return netip.AddrPortFrom(netip.AddrFrom16(a).Unmap(), port), port != 0
		}
		return netip.AddrPort{}, false
	}
	switch {
	case hasXor:
		if ap, ok := parse(xorV, true); ok {
			s.verdict, s.label, s.addr = vC20MustDivert, "stun-binding-success-xor", ap
		} else {
			s.label = "stun-odd-xor-address"
		}
	case hasMap:
		if ap, ok := parse(mapV, false); ok {
			s.verdict, s.label, s.addr = vC20MustDivert, "stun-binding-success-mapped", ap
		} else {
			s.label = "stun-odd-mapped-address"
		}
	default:
		s.label = "stun-success-no-address"
	}
	return s
}

// raw STUN builder (own): header + attributes given as (type, value) pairs.
type vC20Attr struct {
	typ uint16
	val []byte
}

func vC20RawSTUN(msgType uint16, txid [12]byte, attrs []vC20Attr) []byte {
	body := []byte{}
	for _, a := range attrs {
		var h [4]byte
		binary.BigEndian.PutUint16(h[0:], a.typ)
		binary.BigEndian.PutUint16(h[2:], uint16(len(a.val)))
		body = append(body, h[:]...)
		body = append(body, a.val...)
		for len(body)%4 != 0 {
			body = append(body, 0)
		}
	}
	out := make([]byte, 20, 20+len(body))
	binary.BigEndian.PutUint16(out[0:], msgType)
	binary.BigEndian.PutUint16(out[2:], uint16(len(body)))
	binary.BigEndian.PutUint32(out[4:], vC20Cookie)
	copy(out[8:], txid[:])
	return append(out, body...)
}

func vC20XorAddrValue(txid [12]byte, ap netip.AddrPort, xor bool) []byte {
	var mask [16]byte
	port := ap.Port()
	if xor {
		binary.BigEndian.PutUint32(mask[0:4], vC20Cookie)
		copy(mask[4:], txid[:])
		port ^= vC20Cookie >> 16
	}
	ip := ap.Addr().AsSlice()
	v := make([]byte, 4+len(ip))
	v[1] = 0x01
	if len(ip) == 16 {
		v[1] = 0x02
	}
	binary.BigEndian.PutUint16(v[2:], port)
	for i := range ip {
		v[4+i] = ip[i] ^ mask[i]
	}
	return v
}

// pion is used only as a builder of canonical messages.
func vC20PionSTUN(txid [12]byte, typ stun.MessageType, setters ...stun.Setter) []byte {
	all := append([]stun.Setter{stun.NewTransactionIDSetter(txid), typ}, setters...)
	m, err := stun.Build(all...)
	if err != nil {
		panic("harness: pion build: " + err.Error())
	}
	return append([]byte(nil), m.Raw...)
}

// ---------------------------------------------------------------- packets

type vC20Pkt struct {
	b    []byte
	kind string // what the generator meant to build (label only; the verdict comes from the bytes)
	from *net.UDPAddr
}

func vC20TxID(seq int, seed uint64) [12]byte {
	var id [12]byte
	binary.BigEndian.PutUint32(id[0:], uint32(seq)+1)
	binary.BigEndian.PutUint64(id[4:], seed|1)
	return id
}

// vC20From builds the (unique) source address of the seq-th injected packet.
func vC20From(seq int, form int) *net.UDPAddr {
	port := 1 + seq%65535
	switch form % vC20AddrForms {
	case 0: // 4-byte IPv4
		return &net.UDPAddr{IP: net.IP{192, 0, 2, byte(1 + seq%200)}, Port: port}
	case 1: // IPv4-mapped IPv6 (::ffff:a.b.c.d), as a dual-stack socket reports IPv4 peers
		return &net.UDPAddr{IP: net.IPv4(198, 51, 100, byte(1+seq%200)), Port: port}
	case 2: // global IPv6
		ip := net.ParseIP("2001:db8::1")
		ip[15] = byte(1 + seq%200)
		return &net.UDPAddr{IP: ip, Port: port}
	case 3: // link-local IPv6 with a zone
		ip := net.ParseIP("fe80::1")
		ip[15] = byte(1 + seq%200)
		return &net.UDPAddr{IP: ip, Port: port, Zone: "eth0"}
	default: // link-local IPv6, numeric zone
		ip := net.ParseIP("fe80::aa:1")
		ip[15] = byte(1 + seq%200)
		return &net.UDPAddr{IP: ip, Port: port, Zone: "2"}
	}
}

const vC20AddrForms = 5

// vC20SameAddr: "with its source address" = the very address the inner conn
// reported: same IP bytes in the same length form, same port, same zone.
func vC20SameAddr(got, want *net.UDPAddr) bool {
	return got != nil && bytes.Equal(got.IP, want.IP) && got.Port == want.Port && got.Zone == want.Zone
}

// what the implementation is expected to report as the peer of a punch event
func vC20AddrPort(a *net.UDPAddr) netip.AddrPort {
	if ip4 := a.IP.To4(); ip4 != nil {
		return netip.AddrPortFrom(netip.AddrFrom4([4]byte(ip4)), uint16(a.Port))
	}
	return netip.AddrPortFrom(netip.AddrFrom16([16]byte(a.IP.To16())), uint16(a.Port))
}

var vC20Lens = []int{1, 19, 20, 21, 32, 33, 34, 57, 58, 100, 300, 700, 1056, 1057, 1058, 1200, 1252, 1350, 1400, 1401, 1452, 1472, 1500, 2048, 8192}

// non-punch, non-STUN kinds
var vC20PlainKinds = []string{"quic-long", "quic-short", "random", "random-window"}

// STUN kinds
var vC20StunKinds = []string{
	"stun-success-xor4", "stun-success-xor6", "stun-success-mapped4", "stun-success-mapped6", "stun-success-both",
	"stun-success-own", "stun-success-noaddr", "stun-success-port0", "stun-error", "stun-request", "stun-indication",
	"stun-other-method", "stun-truncated", "stun-trailing", "stun-cookie-only", "stun-reserved-bits", "stun-bitflip",
}

// vC20GenLen: datagram length 1..maxLen (maxLen = size of the read buffer, at
// most 9000), biased to the corners of the punch window and to MTU-ish sizes.
func vC20GenLen(t *rapid.T, maxLen int) int {
	if maxLen > 9000 {
		maxLen = 9000
	}
	switch rapid.IntRange(0, 7).Draw(t, "lenMode") {
	case 0, 1, 2, 3:
		if n := rapid.SampledFrom(vC20Lens).Draw(t, "len"); n <= maxLen {
			return n
		}
		return maxLen
	case 4:
		return rapid.IntRange(1, maxLen).Draw(t, "len")
	default:
		return rapid.IntRange(1, min(maxLen, 1500)).Draw(t, "len")
	}
}

func vC20GenPlain(t *rapid.T, kind string, maxLen int) []byte {
	seed := rapid.Uint64().Draw(t, "seed")
	switch kind {
	case "quic-long":
		n := vC20GenLen(t, maxLen)
		if n < 7 {
			n = 7
		}
		b := vC20Fill(seed, n)
		b[0] = 0xC0 | b[0]&0x3F
		ver := rapid.SampledFrom([]uint32{1, 0x6b3343cf, 0, 0xff00001d}).Draw(t, "ver")
		binary.BigEndian.PutUint32(b[1:5], ver)
		b[5] = byte(rapid.IntRange(0, 20).Draw(t, "dcidLen"))
		return b
	case "quic-short":
		n := vC20GenLen(t, maxLen)
		b := vC20Fill(seed, n)
		b[0] = 0x40 | b[0]&0x3F
		return b
	case "random-window":
		return vC20Fill(seed, rapid.IntRange(vC20MinWire, vC20MaxWire).Draw(t, "len"))
	default:
		return vC20Fill(seed, vC20GenLen(t, maxLen))
	}
}

func vC20GenMapped(t *rapid.T, v6 bool) netip.AddrPort {
	port := uint16(rapid.IntRange(1, 65535).Draw(t, "mport"))
	x := rapid.Uint64().Draw(t, "mip")
	if v6 {
		var a [16]byte
		copy(a[:], vC20Fill(x, 16))
		a[0], a[1] = 0x20, 0x01
		return netip.AddrPortFrom(netip.AddrFrom16(a), port)
	}
	var a [4]byte
	copy(a[:], vC20Fill(x, 4))
	return netip.AddrPortFrom(netip.AddrFrom4(a), port)
}

func vC20GenSTUN(t *rapid.T, kind string, seq int) []byte {
	txid := vC20TxID(seq, rapid.Uint64().Draw(t, "txseed"))
	ipOf := func(ap netip.AddrPort) net.IP { return net.IP(ap.Addr().AsSlice()) }
	var extra []stun.Setter
	if rapid.Bool().Draw(t, "software") {
		extra = append(extra, stun.NewSoftware("verif"))
	}
	fp := rapid.Bool().Draw(t, "fingerprint")
	build := func(typ stun.MessageType, s ...stun.Setter) []byte {
		s = append(s, extra...)
		if fp {
			s = append(s, stun.Fingerprint)
		}
		return vC20PionSTUN(txid, typ, s...)
	}
	switch kind {
	case "stun-success-xor4", "stun-success-xor6":
		ap := vC20GenMapped(t, kind == "stun-success-xor6")
		return build(stun.BindingSuccess, &stun.XORMappedAddress{IP: ipOf(ap), Port: int(ap.Port())})
	case "stun-success-mapped4", "stun-success-mapped6":
		ap := vC20GenMapped(t, kind == "stun-success-mapped6")
		return build(stun.BindingSuccess, &stun.MappedAddress{IP: ipOf(ap), Port: int(ap.Port())})
	case "stun-success-both":
		a1, a2 := vC20GenMapped(t, false), vC20GenMapped(t, rapid.Bool().Draw(t, "v6"))
		return build(stun.BindingSuccess, &stun.MappedAddress{IP: ipOf(a1), Port: int(a1.Port())},
			&stun.XORMappedAddress{IP: ipOf(a2), Port: int(a2.Port())})
	case "stun-success-own": // own builder, canonical
		ap := vC20GenMapped(t, rapid.Bool().Draw(t, "v6"))
		xor := rapid.Bool().Draw(t, "xor")
		at := uint16(0x0001)
		if xor {
			at = 0x0020
		}
		attrs := []vC20Attr{{at, vC20XorAddrValue(txid, ap, xor)}}
		if rapid.Bool().Draw(t, "unknownAttrFirst") {
			attrs = append([]vC20Attr{{0x8022, []byte("verif")}}, attrs...)
		}
		return vC20RawSTUN(0x0101, txid, attrs)
	case "stun-success-noaddr":
		return build(stun.BindingSuccess)
	case "stun-success-port0":
		ap := netip.AddrPortFrom(vC20GenMapped(t, false).Addr(), 0)
		xor := rapid.Bool().Draw(t, "xor")
		at := uint16(0x0001)
		if xor {
			at = 0x0020
		}
		return vC20RawSTUN(0x0101, txid, []vC20Attr{{at, vC20XorAddrValue(txid, ap, xor)}})
	case "stun-error":
		ap := vC20GenMapped(t, false)
		s := []stun.Setter{stun.ErrorCodeAttribute{Code: stun.CodeBadRequest, Reason: []byte("bad")}}
		if rapid.Bool().Draw(t, "withAddr") {
			s = append(s, &stun.XORMappedAddress{IP: ipOf(ap), Port: int(ap.Port())})
		}
		return build(stun.BindingError, s...)
	case "stun-request":
		// a request that (unusually) carries an XOR-MAPPED-ADDRESS: only the class bits differ from a response
		ap := vC20GenMapped(t, false)
		if rapid.Bool().Draw(t, "withAddr") {
			return build(stun.BindingRequest, &stun.XORMappedAddress{IP: ipOf(ap), Port: int(ap.Port())})
		}
		return build(stun.BindingRequest)
	case "stun-indication":
		ap := vC20GenMapped(t, false)
		return build(stun.NewType(stun.MethodBinding, stun.ClassIndication), &stun.XORMappedAddress{IP: ipOf(ap), Port: int(ap.Port())})
	case "stun-other-method":
		ap := vC20GenMapped(t, false)
		m := rapid.SampledFrom([]stun.Method{stun.MethodAllocate, stun.MethodRefresh, stun.MethodSend, stun.MethodChannelBind, stun.Method(0x0FFF)}).Draw(t, "method")
		return build(stun.NewType(m, stun.ClassSuccessResponse), &stun.XORMappedAddress{IP: ipOf(ap), Port: int(ap.Port())})
	case "stun-truncated":
		ap := vC20GenMapped(t, rapid.Bool().Draw(t, "v6"))
		b := build(stun.BindingSuccess, &stun.XORMappedAddress{IP: ipOf(ap), Port: int(ap.Port())})
		cut := rapid.IntRange(1, len(b)-1).Draw(t, "cut")
		return b[:len(b)-cut]
	case "stun-trailing":
		ap := vC20GenMapped(t, false)
		b := build(stun.BindingSuccess, &stun.XORMappedAddress{IP: ipOf(ap), Port: int(ap.Port())})
		return append(b, vC20Fill(1, rapid.IntRange(1, 9).Draw(t, "extra"))...)
	case "stun-cookie-only":
		b := vC20Fill(rapid.Uint64().Draw(t, "seed"), rapid.IntRange(20, 200).Draw(t, "len"))
		binary.BigEndian.PutUint32(b[4:], vC20Cookie)
		switch rapid.IntRange(0, 3).Draw(t, "hdr") {
		case 0: // also a binding-success type, but the rest is noise
			b[0], b[1] = 0x01, 0x01
		case 1:
			b[0], b[1] = 0x01, 0x01
			binary.BigEndian.PutUint16(b[2:], uint16(len(b)-20))
		case 2:
			b[0] = 0x40 | b[0]&0x3F // QUIC short header whose bytes 4..8 happen to be the cookie
		}
		return b
	case "stun-reserved-bits":
		ap := vC20GenMapped(t, rapid.Bool().Draw(t, "v6"))
		var b []byte
		if rapid.Bool().Draw(t, "xor") {
			b = build(stun.BindingSuccess, &stun.XORMappedAddress{IP: ipOf(ap), Port: int(ap.Port())})
		} else {
			b = build(stun.BindingSuccess, &stun.MappedAddress{IP: ipOf(ap), Port: int(ap.Port())})
		}
		b[0] |= rapid.SampledFrom([]byte{0x40, 0x80, 0xC0}).Draw(t, "topbits")
		return b
	default: // "stun-bitflip": one bit of the 20-byte header or the first attribute flipped
		ap := vC20GenMapped(t, false)
		b := build(stun.BindingSuccess, &stun.XORMappedAddress{IP: ipOf(ap), Port: int(ap.Port())})
		bit := rapid.IntRange(0, 8*28-1).Draw(t, "bit")
		if bit/8 >= 8 && bit/8 < 20 { // the transaction id is free-form: move the flip into the header
			bit = bit % 64
		}
		b[bit/8] ^= 1 << (bit % 8)
		return b
	}
}

// punch packet for meta m: type, padding, harness or implementation encoder, optional damage.
type vC20PunchSpec struct {
	typ    byte
	pad    int
	impl   bool   // encode with EncodePunchPacket (padding/salt chosen by crypto/rand)
	damage string // "", "flip-salt", "flip-magic", "flip-type", "flip-nonce", "flip-padding", "truncate", "extend"
	arg    int
}

func (s vC20PunchSpec) String() string {
	return fmt.Sprintf("type=%#02x pad=%d impl=%v damage=%s/%d", s.typ, s.pad, s.impl, s.damage, s.arg)
}

var vC20Pads = []int{0, 1, 2, 7, 31, 32, 33, 63, 64, 1000, 1023, 1024}
var vC20Damages = []string{"flip-salt", "flip-magic", "flip-type", "flip-nonce", "flip-padding", "truncate", "extend"}

func vC20GenPunchSpec(t *rapid.T, allowDamage bool) vC20PunchSpec {
	var s vC20PunchSpec
	switch rapid.IntRange(0, 9).Draw(t, "ptype") {
	case 0:
		if rapid.Bool().Draw(t, "badtypeCorner") {
			s.typ = rapid.SampledFrom([]byte{0x00, 0x03, 0x04, 0x81, 0xff}).Draw(t, "badtype")
		} else {
			s.typ = byte(rapid.IntRange(3, 255).Draw(t, "badtype"))
		}
	case 1, 2, 3, 4:
		s.typ = vC20Ack
	default:
		s.typ = vC20Hello
	}
	if rapid.Bool().Draw(t, "padCorner") {
		s.pad = rapid.SampledFrom(vC20Pads).Draw(t, "pad")
	} else {
		s.pad = rapid.IntRange(0, vC20MaxPad).Draw(t, "pad")
	}
	s.impl = (s.typ == vC20Hello || s.typ == vC20Ack) && rapid.IntRange(0, 3).Draw(t, "impl") == 0
	if allowDamage && rapid.IntRange(0, 2).Draw(t, "damaged") == 0 {
		s.damage = rapid.SampledFrom(vC20Damages).Draw(t, "damage")
		s.arg = rapid.IntRange(0, 1<<20).Draw(t, "darg")
	}
	return s
}

// vC20BuildPunch returns the wire bytes and a label describing the damage actually applied.
func vC20BuildPunch(s vC20PunchSpec, m vC20Meta, seed uint64) ([]byte, string, error) {
	var b []byte
	if s.impl {
		var err error
		b, err = EncodePunchPacket(PunchPacketType(s.typ), m.pm())
		if err != nil {
			return nil, "", err
		}
		b = append([]byte(nil), b...)
	} else {
		r := vC20Fill(seed, vC20SaltLen+s.pad)
		b = vC20Encode(s.typ, m, r[:vC20SaltLen], r[vC20SaltLen:])
	}
	label := "intact"
	switch {
	case strings.HasPrefix(s.damage, "flip-"):
		region := strings.TrimPrefix(s.damage, "flip-")
		off, ok := vC20RegionOffset(region, len(b), s.arg>>3)
		if ok {
			b[off] ^= 1 << (s.arg & 7)
			label = "flip-" + vC20Region(off)
		}
	case s.damage == "truncate":
		cut := 1 + s.arg%len(b)
		if cut >= len(b) {
			cut = len(b) - 1
		}
		b = b[:len(b)-cut]
		if len(b) >= vC20MinWire {
			label = "truncated-in-padding"
		} else {
			label = "truncated-header"
		}
	case s.damage == "extend":
		// make the datagram longer than the largest punch packet
		extra := 0 // half of the cases: exactly one byte too long
		if s.arg&0x40 != 0 {
			extra = s.arg % 64
		}
		need := vC20MaxWire + 1 + extra - len(b)
		b = append(b, vC20Fill(seed^0x55, need)...)
		label = "extended-beyond-max"
	}
	return b, label, nil
}

// ---------------------------------------------------------------- model of the registry + reference classifier

type vC20Reg map[string]vC20Meta

func (r vC20Reg) clone() vC20Reg {
	o := vC20Reg{}
	for k, v := range r {
		o[k] = v
	}
	return o
}

// vC20Exp is what the reference classifier says about one injected packet.
type vC20Exp struct {
	idx         int
	pkt         vC20Pkt
	allowPass   bool
	allowDivert bool
	ids         map[string]bool // attempt ids an event may name
	typ         byte
	pad         int
	stun        vC20Stun
	label       string
}

func (e vC20Exp) String() string {
	ids := []string{}
	for _, id := range []string{"a", "b", "c", "d", "e"} {
		if e.ids[id] {
			ids = append(ids, id)
		}
	}
	return fmt.Sprintf("#%d %s [%s] from=%v len=%d pass=%v divert=%v ids=%v bytes=%s", e.idx, e.pkt.kind, e.label, e.pkt.from,
		len(e.pkt.b), e.allowPass, e.allowDivert, ids, vC20Hex(e.pkt.b))
}

// vC20Classify evaluates the packet against every registry state it may be
// decided under (one state = ordered before/after every add/remove; several =
// concurrent with them).
func vC20Classify(idx int, p vC20Pkt, states []vC20Reg) vC20Exp {
	e := vC20Exp{idx: idx, pkt: p, ids: map[string]bool{}}
	e.stun = vC20ClassifySTUN(p.b)
	punchAny, punchAll := false, true
	for _, reg := range states {
		hit := false
		for id, m := range reg {
			if typ, pad, ok := vC20Decode(p.b, m); ok {
				hit = true
				e.ids[id] = true
				e.typ, e.pad = typ, pad
			}
		}
		punchAny = punchAny || hit
		punchAll = punchAll && hit
	}
	e.label = e.stun.label
	if punchAny {
		e.label = "punch-registered"
		if !punchAll {
			e.label = "punch-racing"
		}
	}
	e.allowDivert = e.stun.verdict != vC20MustPass || punchAny
	e.allowPass = e.stun.verdict != vC20MustDivert && !punchAll
	return e
}

// ---------------------------------------------------------------- fake inner PacketConn

var vC20ErrEmpty = errors.New("verif: no more packets queued")

type vC20Fake struct {
	mu     sync.Mutex
	cond   *sync.Cond
	q      []vC20Pkt
	block  bool // blocking mode: ReadFrom waits for a packet or Close
	closed bool
	calls  int // number of ReadFrom calls seen (call k+2 means packet k is fully processed)
	writes int
}

func vC20NewFake(block bool) *vC20Fake {
	f := &vC20Fake{block: block}
	f.cond = sync.NewCond(&f.mu)
	return f
}

func (f *vC20Fake) push(p vC20Pkt) {
	f.mu.Lock()
	f.q = append(f.q, p)
	f.cond.Broadcast()
	f.mu.Unlock()
}

func (f *vC20Fake) ReadFrom(p []byte) (int, net.Addr, error) {
	f.mu.Lock()
	defer f.mu.Unlock()
	f.calls++
	f.cond.Broadcast()
	for len(f.q) == 0 {
		if f.closed {
			return 0, nil, net.ErrClosed
		}
		if !f.block {
			return 0, nil, vC20ErrEmpty
		}
		f.cond.Wait()
	}
	pk := f.q[0]
	f.q = f.q[1:]
	n := copy(p, pk.b)
	return n, pk.from, nil
}

// waitCalls blocks until ReadFrom has been called at least n times. false = deadline.
func (f *vC20Fake) waitCalls(n int, d time.Duration) bool {
	deadline := time.Now().Add(d)
	timer := time.AfterFunc(d, func() { f.mu.Lock(); f.cond.Broadcast(); f.mu.Unlock() })
	defer timer.Stop()
	f.mu.Lock()
	defer f.mu.Unlock()
	for f.calls < n {
		if time.Now().After(deadline) {
			return false
		}
		f.cond.Wait()
	}
	return true
}

func (f *vC20Fake) WriteTo(p []byte, addr net.Addr) (int, error) {
	f.mu.Lock()
	f.writes++
	f.mu.Unlock()
	return len(p), nil
}

func (f *vC20Fake) Close() error {
	f.mu.Lock()
	f.closed = true
	f.cond.Broadcast()
	f.mu.Unlock()
	return nil
}
func (f *vC20Fake) LocalAddr() net.Addr                { return &net.UDPAddr{IP: net.IPv4zero, Port: 4433} }
func (f *vC20Fake) SetDeadline(t time.Time) error      { return nil }
func (f *vC20Fake) SetReadDeadline(t time.Time) error  { return nil }
func (f *vC20Fake) SetWriteDeadline(t time.Time) error { return nil }

// ---------------------------------------------------------------- judge

type vC20Ret struct {
	b    []byte
	addr net.Addr
}

// vC20JudgeReturned checks what ReadFrom handed to QUIC against the packets
// injected in the same window: byte-identical, in order, with their source
// address; nothing that had to pass is missing, nothing that had to be diverted
// shows up. It returns the set of indices (into exps) that were returned.
func vC20JudgeReturned(exps []vC20Exp, rets []vC20Ret) (map[int]bool, error) {
	byPort := map[int]int{}
	for i, e := range exps {
		byPort[e.pkt.from.Port] = i
	}
	returned := map[int]bool{}
	last := -1
	for k, r := range rets {
		ua, ok := r.addr.(*net.UDPAddr)
		if !ok || ua == nil {
			return nil, fmt.Errorf("returned packet %d has source address %v (%T), not the injected *net.UDPAddr; bytes=%s", k, r.addr, r.addr, vC20Hex(r.b))
		}
		i, ok := byPort[ua.Port]
		if !ok || !vC20SameAddr(ua, exps[i].pkt.from) {
			who := "no injected packet"
			for _, e := range exps {
				if bytes.Equal(e.pkt.b, r.b) {
					who = fmt.Sprintf("its bytes are those of %v", e)
					break
				}
			}
			return nil, fmt.Errorf("returned packet %d carries source address %#v which is not the address the inner conn reported for it (%s)", k, *ua, who)
		}
		e := exps[i]
		if returned[i] {
			return nil, fmt.Errorf("packet returned twice: %v", e)
		}
		if i <= last {
			return nil, fmt.Errorf("packets reordered: %v returned after %v", e, exps[last])
		}
		if !bytes.Equal(r.b, e.pkt.b) {
			return nil, fmt.Errorf("packet reached QUIC modified: got %d bytes %s, injected %v", len(r.b), vC20Hex(r.b), e)
		}
		if !e.allowPass {
			return nil, fmt.Errorf("packet that must be diverted reached QUIC: %v", e)
		}
		returned[i] = true
		last = i
	}
	for i, e := range exps {
		if !returned[i] && !e.allowDivert {
			return nil, fmt.Errorf("packet was withheld from QUIC although it is neither a STUN binding response nor a punch packet of a registered attempt: %v", e)
		}
	}
	return returned, nil
}

// vC20MatchPunch checks one punch event against the injected packet it belongs to.
func vC20MatchPunch(ev PunchPacketEvent, e vC20Exp) error {
	if len(e.ids) == 0 {
		return fmt.Errorf("punch event %+v for a packet that decodes under no registered attempt: %v", ev, e)
	}
	if !e.ids[ev.AttemptID] {
		return fmt.Errorf("punch event names attempt %q, packet decodes only under %v: %v", ev.AttemptID, e.ids, e)
	}
	if want := vC20AddrPort(e.pkt.from); ev.From != want {
		return fmt.Errorf("punch event From=%v, packet came from %v: %v", ev.From, want, e)
	}
	if byte(ev.Packet.Type) != e.typ || ev.Packet.PaddingLength != e.pad {
		return fmt.Errorf("punch event reports type=%#02x padding=%d, packet has type=%#02x padding=%d: %v", byte(ev.Packet.Type), ev.Packet.PaddingLength, e.typ, e.pad, e)
	}
	return nil
}

func vC20MatchSTUN(ev STUNPacketEvent, e vC20Exp) error {
	if ev.Message == nil {
		return fmt.Errorf("STUN event without message for %v", e)
	}
	if ev.Message.TransactionID != e.stun.txid {
		return fmt.Errorf("STUN event transaction id %x != %x: %v", ev.Message.TransactionID, e.stun.txid, e)
	}
	if e.stun.verdict == vC20MustDivert {
		got := netip.AddrPortFrom(ev.Addr.Addr().Unmap(), ev.Addr.Port())
		if got != e.stun.addr {
			return fmt.Errorf("STUN event address %v, message carries %v: %v", ev.Addr, e.stun.addr, e)
		}
	}
	return nil
}

// vC20JudgeEvents: complete window (no event can have been dropped for lack of
// room). Every withheld packet has exactly one event of the right kind, in
// order; no event belongs to a returned packet or to nothing.
func vC20JudgeEvents(exps []vC20Exp, returned map[int]bool, pev []PunchPacketEvent, sev []STUNPacketEvent) error {
	byPort := map[int]int{}
	byTx := map[[12]byte][]int{}
	for i, e := range exps {
		byPort[e.pkt.from.Port] = i
		if len(e.pkt.b) >= 20 {
			byTx[e.stun.txid] = append(byTx[e.stun.txid], i)
		}
	}
	gotP, gotS := map[int]bool{}, map[int]bool{}
	last := -1
	for _, ev := range pev {
		i, ok := byPort[int(ev.From.Port())]
		if !ok {
			return fmt.Errorf("punch event %+v matches no injected packet", ev)
		}
		if returned[i] {
			return fmt.Errorf("packet both returned to QUIC and reported as punch event: %v", exps[i])
		}
		if gotP[i] {
			return fmt.Errorf("two punch events for one packet: %v", exps[i])
		}
		if i <= last {
			return fmt.Errorf("punch events out of order at %v", exps[i])
		}
		if err := vC20MatchPunch(ev, exps[i]); err != nil {
			return err
		}
		gotP[i], last = true, i
	}
	last = -1
	for _, ev := range sev {
		if ev.Message == nil {
			return fmt.Errorf("STUN event without message")
		}
		found := -1
		for _, i := range byTx[ev.Message.TransactionID] {
			if i > last && !returned[i] && !gotS[i] && !gotP[i] && exps[i].stun.verdict != vC20MustPass {
				found = i
				break
			}
		}
		if found < 0 {
			return fmt.Errorf("STUN event (txid %x, addr %v) matches no withheld STUN binding response", ev.Message.TransactionID, ev.Addr)
		}
		if err := vC20MatchSTUN(ev, exps[found]); err != nil {
			return err
		}
		gotS[found], last = true, found
	}
	for i, e := range exps {
		if returned[i] || gotP[i] || gotS[i] {
			continue
		}
		if e.stun.verdict == vC20May && len(e.ids) == 0 {
			continue // optional diversion: the statement does not say whether it is reported
		}
		return fmt.Errorf("packet was withheld but neither Events() nor STUNEvents() reported it although the buffer had room: %v", e)
	}
	for i, e := range exps {
		if gotP[i] && e.stun.verdict == vC20MustDivert {
			return fmt.Errorf("STUN binding response reported as punch event: %v", e)
		}
		if gotS[i] && e.stun.verdict == vC20MustPass {
			return fmt.Errorf("punch packet reported as STUN event: %v", e)
		}
	}
	return nil
}

func vC20DrainPunch(c *PunchPacketConn) []PunchPacketEvent {
	var out []PunchPacketEvent
	for {
		select {
		case ev := <-c.Events():
			out = append(out, ev)
		default:
			return out
		}
	}
}

func vC20DrainSTUN(c *PunchPacketConn) []STUNPacketEvent {
	var out []STUNPacketEvent
	for {
		select {
		case ev := <-c.STUNEvents():
			out = append(out, ev)
		default:
			return out
		}
	}
}

// ---------------------------------------------------------------- metadata pool

// vC20GenMetas: 5 metadata values; [1] differs from [0] in one nibble of the
// nonce, [2] in one nibble of the key, [3] is [0] spelled in upper-case hex
// (the same metadata), [4] is unrelated.
func vC20GenMetas(t *rapid.T) []vC20Meta {
	var m0 vC20Meta
	copy(m0.nonce[:], vC20Fill(rapid.Uint64().Draw(t, "nonceSeed"), 16))
	copy(m0.key[:], vC20Fill(rapid.Uint64().Draw(t, "keySeed"), 32))
	m1, m2, m3 := m0, m0, m0
	nn := rapid.IntRange(0, 31).Draw(t, "nonceNibble")
	m1.nonce[nn/2] ^= byte(rapid.IntRange(1, 15).Draw(t, "nonceDelta")) << (4 * uint(nn%2))
	kn := rapid.IntRange(0, 63).Draw(t, "keyNibble")
	m2.key[kn/2] ^= byte(rapid.IntRange(1, 15).Draw(t, "keyDelta")) << (4 * uint(kn%2))
	m3.upper = true
	var m4 vC20Meta
	copy(m4.nonce[:], vC20Fill(rapid.Uint64().Draw(t, "nonceSeed2"), 16))
	copy(m4.key[:], vC20Fill(rapid.Uint64().Draw(t, "keySeed2"), 32))
	if m4.nonce == m0.nonce {
		m4.nonce[0] ^= 0x80 // equal seeds (rapid shrinks towards them): keep M4 a different attempt
	}
	if m4.key == m0.key {
		m4.key[0] ^= 0x80
	}
	return []vC20Meta{m0, m1, m2, m3, m4}
}

var vC20MetaNames = []string{"M0", "M0~nonce", "M0~key", "M0-upper", "M4"}
