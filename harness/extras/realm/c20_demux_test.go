package realm

// C20, demux part: a PunchPacketConn over a fake inner PacketConn; histories of
// add / remove / inject / drain. The reference classifier (c20_ref_test.go)
// says for every injected packet whether it may / must be withheld; the judge
// compares that with what ReadFrom returned and what Events()/STUNEvents()
// reported.

import (
	"context"
	"errors"
	"fmt"
	"net"
	"net/netip"
	"runtime"
	"sort"
	"strings"
	"sync"
	"testing"
	"testing/synctest"
	"time"

	"github.com/pion/stun/v3"
	"pgregory.net/rapid"
)

var vC20IDs = []string{"a", "b", "c", "d"}

// ---------------------------------------------------------------- op generation (shared)

type vC20Op struct {
	kind   string // add, add-invalid, remove, inject, drain, race
	id     string
	meta   int
	bad    PunchMetadata
	pkts   []vC20PktSpec
	ctl    []vC20Op // race: ops executed by the control goroutine
	yields int      // race: bit mask of Gosched points
}

type vC20PktSpec struct {
	kind   string // one of vC20PlainKinds / vC20StunKinds / "punch" / "replay"
	bytes  []byte // plain + stun: final bytes
	meta   int    // punch
	punch  vC20PunchSpec
	seed   uint64
	form   int // source address form
	replay int // replay: index of an earlier injected packet (modulo)
}

func (o vC20Op) String() string {
	switch o.kind {
	case "add":
		return fmt.Sprintf("add(%s,%s)", o.id, vC20MetaNames[o.meta])
	case "add-invalid":
		return fmt.Sprintf("add-invalid(%s,%+v)", o.id, o.bad)
	case "remove":
		return fmt.Sprintf("remove(%s)", o.id)
	case "drain":
		return "drain"
	case "inject":
		ks := []string{}
		for _, p := range o.pkts {
			ks = append(ks, p.String())
		}
		return "inject[" + strings.Join(ks, ", ") + "]"
	default:
		cs := []string{}
		for _, c := range o.ctl {
			cs = append(cs, c.String())
		}
		ks := []string{}
		for _, p := range o.pkts {
			ks = append(ks, p.String())
		}
		return "race{ctl: " + strings.Join(cs, ";") + " || inject[" + strings.Join(ks, ", ") + "]}"
	}
}

func (p vC20PktSpec) String() string {
	switch p.kind {
	case "punch":
		return fmt.Sprintf("punch(%s,%v)", vC20MetaNames[p.meta], p.punch)
	case "replay":
		return fmt.Sprintf("replay(%d)", p.replay)
	}
	return p.kind
}

func vC20GenPktSpec(t *rapid.T, seq int, punchBias int, maxLen int) vC20PktSpec {
	var p vC20PktSpec
	p.form = rapid.IntRange(0, vC20AddrForms-1).Draw(t, "addrForm")
	p.seed = rapid.Uint64().Draw(t, "pseed")
	switch c := rapid.IntRange(0, 9+punchBias).Draw(t, "pclass"); {
	case c <= 1:
		p.kind = rapid.SampledFrom(vC20PlainKinds).Draw(t, "plainKind")
		p.bytes = vC20GenPlain(t, p.kind, maxLen)
	case c <= 4:
		p.kind = rapid.SampledFrom(vC20StunKinds).Draw(t, "stunKind")
		p.bytes = vC20GenSTUN(t, p.kind, seq)
	case c == 5:
		p.kind = "replay"
		p.replay = rapid.IntRange(0, 1<<16).Draw(t, "replayOf")
	default:
		p.kind = "punch"
		p.meta = rapid.IntRange(0, 4).Draw(t, "pmeta")
		p.punch = vC20GenPunchSpec(t, true)
	}
	return p
}

var vC20BadMetas = []PunchMetadata{
	{Nonce: "", Obfs: ""},
	{Nonce: "zz112233445566778899aabbccddeeff", Obfs: "00112233445566778899aabbccddeeff00112233445566778899aabbccddeeff"},
	{Nonce: "00112233445566778899aabbccddee", Obfs: "00112233445566778899aabbccddeeff00112233445566778899aabbccddeeff"},
	{Nonce: "00112233445566778899aabbccddeeff", Obfs: "00112233445566778899aabbccddeeff"},
	{Nonce: "00112233445566778899aabbccddeeff00", Obfs: "00112233445566778899aabbccddeeff00112233445566778899aabbccddeeff"},
}

func vC20GenCtl(t *rapid.T) vC20Op {
	switch c := rapid.IntRange(0, 9).Draw(t, "ctl"); {
	case c <= 4:
		return vC20Op{kind: "add", id: rapid.SampledFrom(vC20IDs).Draw(t, "id"), meta: rapid.IntRange(0, 4).Draw(t, "meta")}
	case c == 5:
		return vC20Op{kind: "add-invalid", id: rapid.SampledFrom(vC20IDs).Draw(t, "id"), bad: rapid.SampledFrom(vC20BadMetas).Draw(t, "bad")}
	default:
		return vC20Op{kind: "remove", id: rapid.SampledFrom(vC20IDs).Draw(t, "id")}
	}
}

// vC20Materialize turns a packet spec into bytes + source address. history =
// packets injected so far (for replay).
func vC20Materialize(p vC20PktSpec, seq int, metas []vC20Meta, history []vC20Pkt) (vC20Pkt, error) {
	out := vC20Pkt{kind: p.kind, from: vC20From(seq, p.form)}
	switch p.kind {
	case "punch":
		b, dmg, err := vC20BuildPunch(p.punch, metas[p.meta], p.seed)
		if err != nil {
			return out, err
		}
		out.b = b
		out.kind = fmt.Sprintf("punch(%s,type=%#02x,%s)", vC20MetaNames[p.meta], p.punch.typ, dmg)
	case "replay":
		if len(history) == 0 {
			out.b = vC20Fill(p.seed, 40)
			out.kind = "random"
		} else {
			h := history[(p.replay>>1)%len(history)]
			if p.replay&1 != 0 { // half of the replays repeat one of the last four packets
				h = history[len(history)-1-(p.replay>>1)%min(4, len(history))]
			}
			out.b = append([]byte(nil), h.b...)
			out.kind = "replay:" + h.kind
		}
	default:
		out.b = p.bytes
	}
	return out, nil
}

func vC20ApplyCtl(c *PunchPacketConn, reg vC20Reg, op vC20Op, metas []vC20Meta) (vC20Reg, error) {
	reg = reg.clone()
	switch op.kind {
	case "add":
		if err := c.AddPunchAttempt(op.id, metas[op.meta].pm()); err != nil {
			return reg, fmt.Errorf("AddPunchAttempt(%q, valid metadata %v) failed: %v", op.id, metas[op.meta], err)
		}
		reg[op.id] = metas[op.meta]
	case "add-invalid":
		if err := c.AddPunchAttempt(op.id, op.bad); err == nil {
			// registered under metadata no packet can be encoded with: nothing may decode under it
			delete(reg, op.id)
		}
	case "remove":
		c.RemovePunchAttempt(op.id)
		delete(reg, op.id)
	}
	return reg, nil
}

// labels for the histogram / NT rule
func vC20CaseClasses(exps []vC20Exp, everRemoved []vC20Meta, metas []vC20Meta) (classes []string, near bool) {
	for _, e := range exps {
		l := e.label
		if len(e.ids) == 0 && e.stun.verdict == vC20MustPass {
			// would it decode under removed / never-registered metadata?
			for _, m := range everRemoved {
				if _, _, ok := vC20Decode(e.pkt.b, m); ok {
					l = "punch-removed-attempt"
				}
			}
			if l != "punch-removed-attempt" {
				for _, m := range metas {
					if _, _, ok := vC20Decode(e.pkt.b, m); ok {
						l = "punch-never-registered"
					}
				}
			}
			if l == "not-stun" && strings.HasPrefix(e.pkt.kind, "punch(") {
				l = "punch-damaged"
			}
			if l == "not-stun" {
				l = e.pkt.kind
				if strings.HasPrefix(l, "replay:") {
					l = "replay-plain"
				}
			}
		}
		classes = append(classes, "pkt:"+l)
		switch {
		case l == "punch-removed-attempt", l == "punch-never-registered", l == "punch-damaged", l == "punch-racing":
			near = true
		case e.stun.label != "not-stun" && e.stun.verdict != vC20MustDivert:
			near = true
		}
	}
	return classes, near
}

// ---------------------------------------------------------------- sequential histories

func TestVerifC20_Demux(t *testing.T) {
	st := newVStats("TestVerifC20_Demux")
	defer st.Flush()
	rapid.Check(t, func(rt *rapid.T) {
		metas := vC20GenMetas(rt)
		capDraw := rapid.SampledFrom([]int{0, -1, 1, 2, 3, 16}).Draw(rt, "eventBuffer")
		capacity := capDraw
		if capacity <= 0 {
			capacity = 16
		}
		bufLen := rapid.SampledFrom([]int{1500, 2048, 65536}).Draw(rt, "readBuf")
		nops := rapid.IntRange(1, 24).Draw(rt, "nops")
		var ops []vC20Op
		seq := 0
		for i := 0; i < nops; i++ {
			switch c := rapid.IntRange(0, 9).Draw(rt, "op"); {
			case c <= 2:
				ops = append(ops, vC20GenCtl(rt))
			case c == 3:
				ops = append(ops, vC20Op{kind: "drain"})
			default:
				n := rapid.IntRange(1, 5).Draw(rt, "burst")
				op := vC20Op{kind: "inject"}
				for k := 0; k < n; k++ {
					op.pkts = append(op.pkts, vC20GenPktSpec(rt, seq, 2, bufLen))
					seq++
				}
				ops = append(ops, op)
			}
		}
		ops = append(ops, vC20Op{kind: "drain"})

		fake := vC20NewFake(false)
		pc, err := NewPunchPacketConn(fake, capDraw)
		if err != nil {
			rt.Fatalf("C20: NewPunchPacketConn: %v", err)
		}
		reg := vC20Reg{}
		var everRemoved []vC20Meta
		var history []vC20Pkt
		var allExps []vC20Exp
		// event window since the last drain
		var winExps []vC20Exp
		winReturned := map[int]bool{}
		occP, occS := 0, 0
		wantP, wantS := []int{}, []int{} // indices into winExps whose event must be in the channel
		uncertain := false
		buf := make([]byte, bufLen)
		var trace []string
		fail := func(format string, a ...any) {
			rt.Fatalf("C20: %s\nhistory: %s\nregistered now: %v", fmt.Sprintf(format, a...), strings.Join(trace, " ; "), reg)
		}
		seq = 0
		removalBetweenTwins := false
		seenVerdict := map[string]string{}
		for _, op := range ops {
			trace = append(trace, op.String())
			switch op.kind {
			case "add", "add-invalid", "remove":
				if old, ok := reg[op.id]; ok && (op.kind == "remove" || (op.kind == "add" && !old.same(metas[op.meta]))) {
					everRemoved = append(everRemoved, old)
				}
				var cerr error
				reg, cerr = vC20ApplyCtl(pc, reg, op, metas)
				if cerr != nil {
					fail("%v", cerr)
				}
			case "inject":
				var exps []vC20Exp
				for _, ps := range op.pkts {
					pkt, berr := vC20Materialize(ps, seq, metas, history)
					if berr != nil {
						fail("EncodePunchPacket failed: %v", berr)
					}
					seq++
					history = append(history, pkt)
					fake.push(pkt)
					e := vC20Classify(len(allExps)+len(exps), pkt, []vC20Reg{reg})
					exps = append(exps, e)
					k := string(pkt.b)
					v := fmt.Sprint(e.allowPass, e.allowDivert)
					if old, ok := seenVerdict[k]; ok && old != v {
						removalBetweenTwins = true
					}
					seenVerdict[k] = v
				}
				var rets []vC20Ret
				for {
					n, addr, rerr := pc.ReadFrom(buf)
					if rerr != nil {
						if !errors.Is(rerr, vC20ErrEmpty) {
							fail("ReadFrom returned unexpected error %v", rerr)
						}
						break
					}
					rets = append(rets, vC20Ret{b: append([]byte(nil), buf[:n]...), addr: addr})
					if len(rets) > len(exps) {
						fail("ReadFrom returned more packets (%d) than were injected (%d)", len(rets), len(exps))
					}
				}
				returned, jerr := vC20JudgeReturned(exps, rets)
				if jerr != nil {
					fail("%v", jerr)
				}
				for i, e := range exps {
					w := len(winExps)
					winExps = append(winExps, e)
					if returned[i] {
						winReturned[w] = true
						continue
					}
					// withheld: which channel, and is there room?
					switch {
					case e.stun.verdict == vC20May:
						uncertain = true // optional diversion: whether/where it is reported is not specified
					case e.stun.verdict == vC20MustDivert:
						if occS < capacity {
							occS++
							wantS = append(wantS, w)
						}
					default:
						if occP < capacity {
							occP++
							wantP = append(wantP, w)
						}
					}
				}
				allExps = append(allExps, exps...)
			case "drain":
				pev, sev := vC20DrainPunch(pc), vC20DrainSTUN(pc)
				if len(pev) > capacity || len(sev) > capacity {
					fail("drained %d punch / %d STUN events from channels of capacity %d", len(pev), len(sev), capacity)
				}
				if uncertain {
					// only attribution can be checked: treat events as a subset
					if err := vC20JudgeEventSubset(winExps, winReturned, pev, sev); err != nil {
						fail("%v", err)
					}
				} else {
					if len(pev) != len(wantP) || len(sev) != len(wantS) {
						fail("events after drain: %d punch / %d STUN, expected %d / %d (capacity %d); window: %v", len(pev), len(sev), len(wantP), len(wantS), capacity, winExps)
					}
					for k, ev := range pev {
						if err := vC20MatchPunch(ev, winExps[wantP[k]]); err != nil {
							fail("punch event %d: %v", k, err)
						}
					}
					for k, ev := range sev {
						if err := vC20MatchSTUN(ev, winExps[wantS[k]]); err != nil {
							fail("STUN event %d: %v", k, err)
						}
					}
				}
				winExps, winReturned = nil, map[int]bool{}
				occP, occS, wantP, wantS, uncertain = 0, 0, []int{}, []int{}, false
			}
		}
		classes, near := vC20CaseClasses(allExps, everRemoved, metas)
		if removalBetweenTwins {
			classes = append(classes, "hist:verdict-change-between-identical-packets")
		}
		kinds := []string{}
		for _, op := range ops {
			kinds = append(kinds, op.kind)
		}
		sort.Strings(classes)
		st.Case(near || removalBetweenTwins, strings.Join(kinds, ",")+"|"+strings.Join(classes, ","), append(classes, fmt.Sprintf("cap:%d", capacity)),
			func() string { return strings.Join(trace, " ; ") })
	})
}

// vC20JudgeEventSubset: every event is attributable to a withheld packet of the
// window, in order, with the right fields (used when the occupancy of the event
// buffers is not known exactly).
func vC20JudgeEventSubset(exps []vC20Exp, returned map[int]bool, pev []PunchPacketEvent, sev []STUNPacketEvent) error {
	byPort := map[int]int{}
	for i, e := range exps {
		byPort[e.pkt.from.Port] = i
	}
	last := -1
	for _, ev := range pev {
		i, ok := byPort[int(ev.From.Port())]
		if !ok || returned[i] || i <= last {
			return fmt.Errorf("punch event %+v matches no withheld packet in order", ev)
		}
		if err := vC20MatchPunch(ev, exps[i]); err != nil {
			return err
		}
		last = i
	}
	last = -1
	for _, ev := range sev {
		found := -1
		for i, e := range exps {
			if i > last && !returned[i] && ev.Message != nil && e.stun.txid == ev.Message.TransactionID && e.stun.verdict != vC20MustPass && len(e.pkt.b) >= 20 {
				found = i
				break
			}
		}
		if found < 0 {
			return fmt.Errorf("STUN event (addr %v) matches no withheld STUN binding response in order", ev.Addr)
		}
		if err := vC20MatchSTUN(ev, exps[found]); err != nil {
			return err
		}
		last = found
	}
	return nil
}

// ---------------------------------------------------------------- concurrent add/remove while reading

func TestVerifC20_Concurrent(t *testing.T) {
	st := newVStats("TestVerifC20_Concurrent")
	defer st.Flush()
	var divertedRacing, passedRacing int64
	rapid.Check(t, func(rt *rapid.T) {
		metas := vC20GenMetas(rt)
		nsteps := rapid.IntRange(1, 12).Draw(rt, "nsteps")
		var ops []vC20Op
		seq := 0
		genPkts := func(n int, bias int) []vC20PktSpec {
			var out []vC20PktSpec
			for k := 0; k < n; k++ {
				out = append(out, vC20GenPktSpec(rt, seq, bias, 2048))
				seq++
			}
			return out
		}
		for i := 0; i < nsteps; i++ {
			switch c := rapid.IntRange(0, 9).Draw(rt, "step"); {
			case c <= 2:
				ops = append(ops, vC20GenCtl(rt))
			case c <= 5:
				ops = append(ops, vC20Op{kind: "inject", pkts: genPkts(rapid.IntRange(1, 4).Draw(rt, "burst"), 2)})
			default:
				op := vC20Op{kind: "race", yields: rapid.IntRange(0, 255).Draw(rt, "yields")}
				for k, n := 0, rapid.IntRange(1, 3).Draw(rt, "nctl"); k < n; k++ {
					op.ctl = append(op.ctl, vC20GenCtl(rt))
				}
				op.pkts = genPkts(rapid.IntRange(1, 8).Draw(rt, "burst"), 8)
				ops = append(ops, op)
			}
		}

		fake := vC20NewFake(true)
		pc, err := NewPunchPacketConn(fake, 64)
		if err != nil {
			rt.Fatalf("C20: NewPunchPacketConn: %v", err)
		}
		var retMu sync.Mutex
		var rets []vC20Ret
		readerDone := make(chan error, 1)
		go func() {
			buf := make([]byte, 2048)
			for {
				n, addr, rerr := pc.ReadFrom(buf)
				if rerr != nil {
					readerDone <- rerr
					return
				}
				retMu.Lock()
				rets = append(rets, vC20Ret{b: append([]byte(nil), buf[:n]...), addr: addr})
				retMu.Unlock()
			}
		}()
		stop := func() {
			fake.Close()
			select {
			case <-readerDone:
			case <-time.After(60 * time.Second):
				vInconclusive("C20 concurrent: reader goroutine did not return 60s after the inner conn was closed")
			}
		}
		var trace []string
		reg := vC20Reg{}
		var everRemoved []vC20Meta
		var history []vC20Pkt
		var allExps []vC20Exp
		injected := 0
		fail := func(format string, a ...any) {
			stop()
			rt.Fatalf("C20: %s\nhistory: %s\nregistered now: %v", fmt.Sprintf(format, a...), strings.Join(trace, " ; "), reg)
		}
		noteRemoved := func(op vC20Op) {
			if old, ok := reg[op.id]; ok && (op.kind == "remove" || (op.kind == "add" && !old.same(metas[op.meta]))) {
				everRemoved = append(everRemoved, old)
			}
		}
		seq = 0
		// quiesce: every injected packet fully processed (the reader is back in the inner ReadFrom)
		quiesce := func() {
			if !fake.waitCalls(injected+1, 60*time.Second) {
				stop()
				vInconclusive("C20 concurrent: reader did not consume the injected packets within 60s")
			}
		}
		racing := false
		for _, op := range ops {
			trace = append(trace, op.String())
			var exps []vC20Exp
			switch op.kind {
			case "add", "add-invalid", "remove":
				noteRemoved(op)
				var cerr error
				reg, cerr = vC20ApplyCtl(pc, reg, op, metas)
				if cerr != nil {
					fail("%v", cerr)
				}
				continue
			case "inject":
				for _, ps := range op.pkts {
					pkt, berr := vC20Materialize(ps, seq, metas, history)
					if berr != nil {
						fail("EncodePunchPacket failed: %v", berr)
					}
					seq++
					history = append(history, pkt)
					exps = append(exps, vC20Classify(len(allExps)+len(exps), pkt, []vC20Reg{reg}))
					fake.push(pkt)
					injected++
				}
				quiesce()
			case "race":
				// packets are built before the race starts (their bytes do not depend on the registry)
				var pkts []vC20Pkt
				for _, ps := range op.pkts {
					pkt, berr := vC20Materialize(ps, seq, metas, history)
					if berr != nil {
						fail("EncodePunchPacket failed: %v", berr)
					}
					seq++
					pkts = append(pkts, pkt)
				}
				history = append(history, pkts...)
				states := []vC20Reg{reg}
				cur := reg
				ctlErr := make(chan error, 1)
				// model first (pure), then run: the control goroutine replays the same ops on the real conn
				shadow := cur
				for _, c := range op.ctl {
					noteRemoved(vC20Op{kind: c.kind, id: c.id, meta: c.meta})
					shadow = shadow.clone()
					switch c.kind {
					case "add":
						shadow[c.id] = metas[c.meta]
					case "remove":
						delete(shadow, c.id)
					}
					states = append(states, shadow)
					reg = shadow // noteRemoved looks at reg
				}
				reg = cur
				go func() {
					var first error
					r := cur
					for k, c := range op.ctl {
						if op.yields&(1<<uint(k)) != 0 {
							runtime.Gosched()
						}
						var e error
						r, e = vC20ApplyCtl(pc, r, c, metas)
						if e != nil && first == nil {
							first = e
						}
					}
					ctlErr <- first
				}()
				for k, pkt := range pkts {
					if op.yields&(1<<uint(3+k%5)) != 0 {
						runtime.Gosched()
					}
					exps = append(exps, vC20Classify(len(allExps)+len(exps), pkt, states))
					fake.push(pkt)
					injected++
				}
				select {
				case cerr := <-ctlErr:
					if cerr != nil {
						fail("%v", cerr)
					}
				case <-time.After(60 * time.Second):
					stop()
					vInconclusive("C20 concurrent: add/remove did not return within 60s")
				}
				quiesce()
				reg = states[len(states)-1]
			}
			// the step is quiescent: judge it
			retMu.Lock()
			got := rets
			rets = nil
			retMu.Unlock()
			returned, jerr := vC20JudgeReturned(exps, got)
			if jerr != nil {
				fail("%v", jerr)
			}
			if err := vC20JudgeEvents(exps, returned, vC20DrainPunch(pc), vC20DrainSTUN(pc)); err != nil {
				fail("%v", err)
			}
			for i, e := range exps {
				if e.label == "punch-racing" {
					racing = true
					if returned[i] {
						passedRacing++
					} else {
						divertedRacing++
					}
				}
			}
			allExps = append(allExps, exps...)
		}
		stop()
		classes, near := vC20CaseClasses(allExps, everRemoved, metas)
		if racing {
			classes = append(classes, "hist:racing-punch")
		}
		kinds := []string{}
		for _, op := range ops {
			kinds = append(kinds, op.kind)
		}
		sort.Strings(classes)
		st.Case(near, strings.Join(kinds, ",")+"|"+strings.Join(classes, ","), classes, func() string { return strings.Join(trace, " ; ") })
	})
	st.Extra("racing_punch_diverted", divertedRacing)
	st.Extra("racing_punch_passed", passedRacing)
}

// ---------------------------------------------------------------- server side: Respond registers, removes on return

type vC20SrvOp struct {
	kind    string // respond, punch, cancel, sleep, plain
	att     int
	variant int  // respond/punch: 0 = the attempt's metadata, 1 = same nonce other key, 2 = same key other nonce
	invalid bool // respond: metadata that does not parse
	typ     byte
	pad     int
	timeout time.Duration
	sleep   time.Duration
	seed    uint64
}

func (o vC20SrvOp) String() string {
	switch o.kind {
	case "respond":
		return fmt.Sprintf("respond(%d,meta v%d,invalid=%v,timeout=%v)", o.att, o.variant, o.invalid, o.timeout)
	case "punch":
		return fmt.Sprintf("punch(%d,meta v%d,type=%d,pad=%d)", o.att, o.variant, o.typ, o.pad)
	case "cancel":
		return fmt.Sprintf("cancel(%d)", o.att)
	case "sleep":
		return fmt.Sprintf("sleep(%v)", o.sleep)
	}
	return o.kind
}

// Timeouts are X ms + 500 µs (or 0 = the 10 s default), sleeps are Y ms + 1 µs
// and at most 16 per case: the virtual clock never stands exactly on a deadline,
// so "has this Respond timed out yet" always has one answer.
func vC20SrvTimeout(ms int) time.Duration {
	if ms == 0 {
		return 0
	}
	return time.Duration(ms)*time.Millisecond + 500*time.Microsecond
}

// vC20SrvMeta: metadata variant v of an attempt; all variants of all attempts
// are pairwise different (the attempts differ in one nibble, the variants in
// two nibbles of the last key / nonce byte).
func vC20SrvMeta(att []vC20Meta, i, v int) vC20Meta {
	m := att[i]
	switch v {
	case 1:
		m.key[31] ^= 0x55
	case 2:
		m.nonce[15] ^= 0xAA
	}
	return m
}

type vC20SrvResult struct {
	res PunchResult
	err error
}

func TestVerifC20_ServerPuncher(t *testing.T) {
	st := newVStats("TestVerifC20_ServerPuncher")
	defer st.Flush()
	rapid.Check(t, func(rt *rapid.T) {
		metas := vC20GenMetas(rt)
		att := []vC20Meta{metas[0], metas[1], metas[2], metas[4]} // pairwise different metadata
		nops := rapid.IntRange(2, 16).Draw(rt, "nops")
		var ops []vC20SrvOp
		for i := 0; i < nops; i++ {
			switch c := rapid.IntRange(0, 9).Draw(rt, "op"); {
			case c <= 2:
				ops = append(ops, vC20SrvOp{kind: "respond", att: rapid.IntRange(0, 3).Draw(rt, "att"),
					variant: rapid.SampledFrom([]int{0, 0, 0, 1, 2}).Draw(rt, "variant"), invalid: rapid.IntRange(0, 7).Draw(rt, "invalid") == 0,
					timeout: vC20SrvTimeout(rapid.SampledFrom([]int{0, 300, 1000, 5000}).Draw(rt, "timeoutMs"))})
			case c <= 6:
				ops = append(ops, vC20SrvOp{kind: "punch", att: rapid.IntRange(0, 3).Draw(rt, "att"), variant: rapid.SampledFrom([]int{0, 0, 0, 1, 2}).Draw(rt, "variant"), typ: byte(rapid.IntRange(1, 2).Draw(rt, "typ")),
					pad: rapid.SampledFrom([]int{0, 1, 100, 1024}).Draw(rt, "pad"), seed: rapid.Uint64().Draw(rt, "seed")})
			case c == 7:
				ops = append(ops, vC20SrvOp{kind: "cancel", att: rapid.IntRange(0, 3).Draw(rt, "att")})
			case c == 8:
				ops = append(ops, vC20SrvOp{kind: "sleep", sleep: time.Duration(rapid.SampledFrom([]int{50, 250, 400, 1100, 6000, 11000}).Draw(rt, "sleepMs"))*time.Millisecond + time.Microsecond})
			default:
				ops = append(ops, vC20SrvOp{kind: "plain", seed: rapid.Uint64().Draw(rt, "seed")})
			}
		}
		var failure string
		var trace []string
		near := false
		synctest.Test(t, func(t *testing.T) {
			fail := func(format string, a ...any) {
				if failure == "" {
					failure = fmt.Sprintf(format, a...) + "\nhistory: " + strings.Join(trace, " ; ")
				}
			}
			ctx, cancelAll := context.WithCancel(context.Background())
			fake := vC20NewFakeChan()
			pc, err := NewPunchPacketConn(fake, 16)
			if err != nil {
				fail("NewPunchPacketConn: %v", err)
				cancelAll()
				return
			}
			sp, err := NewServerPuncher(ctx, pc)
			if err != nil {
				fail("NewServerPuncher: %v", err)
				cancelAll()
				return
			}
			var retMu sync.Mutex
			var rets []vC20Ret
			readerDone := make(chan struct{})
			go func() {
				defer close(readerDone)
				buf := make([]byte, 2048)
				for {
					n, addr, rerr := pc.ReadFrom(buf)
					if rerr != nil {
						return
					}
					retMu.Lock()
					rets = append(rets, vC20Ret{b: append([]byte(nil), buf[:n]...), addr: addr})
					retMu.Unlock()
				}
			}()
			type active struct {
				done    chan vC20SrvResult
				cancel  context.CancelFunc
				expires time.Time
				variant int
			}
			act := map[int]*active{}
			local := []netip.AddrPort{netip.MustParseAddrPort("192.0.2.1:4433")}
			peer := []netip.AddrPort{netip.MustParseAddrPort("192.0.2.99:999")}
			seq := 0
			// collect: after quiescence, which Responds have returned, and with what
			finished := func(i int) (vC20SrvResult, bool) {
				a := act[i]
				if a == nil {
					return vC20SrvResult{}, false
				}
				select {
				case r := <-a.done:
					delete(act, i)
					return r, true
				default:
					return vC20SrvResult{}, false
				}
			}
			inject := func(b []byte) (vC20Pkt, bool) {
				pkt := vC20Pkt{b: b, from: vC20From(seq, seq)}
				seq++
				retMu.Lock()
				rets = nil
				retMu.Unlock()
				fake.ch <- pkt
				synctest.Wait()
				retMu.Lock()
				defer retMu.Unlock()
				if len(rets) > 1 {
					fail("one packet injected, %d returned", len(rets))
				}
				if len(rets) == 1 {
					if _, err := vC20JudgeReturned([]vC20Exp{{pkt: pkt, allowPass: true, allowDivert: true}}, rets); err != nil {
						fail("%v", err)
					}
					return pkt, true
				}
				return pkt, false
			}
			for _, op := range ops {
				if failure != "" {
					break
				}
				trace = append(trace, op.String())
				switch op.kind {
				case "respond":
					if act[op.att] != nil || op.invalid {
						// A Respond for an id that is in flight (server_punch.go: "duplicate id"),
						// or with metadata that does not parse, is rejected and must leave the
						// demux exactly as it was: the in-flight attempt keeps its metadata.
						pm := vC20SrvMeta(att, op.att, op.variant).pm()
						if op.invalid {
							pm = vC20BadMetas[(op.att+op.variant)%len(vC20BadMetas)]
						}
						dup := make(chan vC20SrvResult, 1)
						id, to := fmt.Sprintf("attempt-%d", op.att), op.timeout
						go func() {
							r, e := sp.Respond(ctx, id, local, peer, pm, PunchConfig{Timeout: to})
							dup <- vC20SrvResult{r, e}
						}()
						synctest.Wait()
						select {
						case r := <-dup:
							if r.err == nil {
								fail("Respond(%s) with in-flight id / invalid metadata returned a result %+v instead of an error", id, r.res)
							}
						default:
							fail("Respond(%s) for an id that is already in flight (or with invalid metadata) was not rejected", id)
						}
						if act[op.att] != nil {
							near = true
							trace[len(trace)-1] += "(duplicate of in-flight attempt)"
							if r, ok := finished(op.att); ok {
								fail("in-flight Respond(%s) returned (%+v, %v) when a duplicate Respond was rejected", id, r.res, r.err)
							}
						}
						continue
					}
					rctx, cancel := context.WithCancel(ctx)
					a := &active{done: make(chan vC20SrvResult, 1), cancel: cancel, variant: op.variant}
					eff := op.timeout
					if eff == 0 {
						eff = 10 * time.Second
					}
					a.expires = time.Now().Add(eff)
					act[op.att] = a
					id, m, to := fmt.Sprintf("attempt-%d", op.att), vC20SrvMeta(att, op.att, op.variant), op.timeout
					go func() {
						r, e := sp.Respond(rctx, id, local, peer, m.pm(), PunchConfig{Timeout: to})
						a.done <- vC20SrvResult{r, e}
					}()
					synctest.Wait() // AddPunchAttempt has returned, Respond waits for events
					if r, ok := finished(op.att); ok {
						fail("Respond(%s) returned immediately: %+v %v", id, r.res, r.err)
					}
				case "cancel":
					if a := act[op.att]; a != nil {
						a.cancel()
						synctest.Wait()
						if r, ok := finished(op.att); !ok || r.err == nil {
							fail("Respond(attempt-%d) did not return an error after its context was cancelled (returned=%v)", op.att, ok)
						}
					}
				case "sleep":
					time.Sleep(op.sleep)
					synctest.Wait()
					for i, a := range act {
						if !time.Now().Before(a.expires) {
							if time.Now().Equal(a.expires) {
								// exactly at the deadline: either
								finished(i)
								continue
							}
							if r, ok := finished(i); !ok || !errors.Is(r.err, ErrPunchTimeout) {
								fail("Respond(attempt-%d) did not time out (returned=%v err=%v)", i, ok, r.err)
							}
						}
					}
				case "plain":
					b := vC20Fill(op.seed, 64)
					b[0] = 0x40 | b[0]&0x3f
					if _, passed := inject(b); !passed {
						fail("QUIC-like packet withheld")
					}
				case "punch":
					m := vC20SrvMeta(att, op.att, op.variant)
					r := vC20Fill(op.seed, 8+op.pad)
					b := vC20Encode(op.typ, m, r[:8], r[8:])
					a := act[op.att]
					if a != nil && a.variant != op.variant {
						// metadata the in-flight attempt was NOT registered with (possibly offered by a rejected duplicate)
						near = true
						if _, passed := inject(b); !passed {
							fail("packet under metadata v%d withheld although attempt-%d is in flight with metadata v%d only: %s", op.variant, op.att, a.variant, vC20Hex(b))
						}
						if r, ok := finished(op.att); ok {
							fail("Respond(attempt-%d) (metadata v%d) returned (%+v, %v) on a packet under metadata v%d", op.att, a.variant, r.res, r.err, op.variant)
						}
						continue
					}
					pkt, passed := inject(b)
					if a == nil {
						near = true
						if !passed {
							fail("punch packet of attempt-%d withheld although no Respond for it is active (attempt removed or never registered): %s", op.att, vC20Hex(b))
						}
						continue
					}
					if passed {
						fail("punch packet of active attempt-%d reached QUIC: %s", op.att, vC20Hex(b))
						continue
					}
					res, ok := finished(op.att)
					if !ok {
						fail("Respond(attempt-%d) did not return after a valid punch packet was received", op.att)
						continue
					}
					if res.err != nil || res.res.PeerAddr != vC20AddrPort(pkt.from) || byte(res.res.Packet.Type) != op.typ || res.res.Packet.PaddingLength != op.pad {
						fail("Respond(attempt-%d) = %+v, %v; packet was type=%d pad=%d from %v", op.att, res.res, res.err, op.typ, op.pad, pkt.from)
					}
					// the other active attempts are still waiting
					for i := range act {
						if r, ok := finished(i); ok {
							fail("Respond(attempt-%d) returned (%+v, %v) on a packet of attempt-%d", i, r.res, r.err, op.att)
						}
					}
					// the same bytes again: the attempt is gone, so they must reach QUIC
					if _, passed := inject(append([]byte(nil), b...)); !passed {
						fail("punch packet of attempt-%d still withheld after Respond returned (attempt removed): %s", op.att, vC20Hex(b))
					}
				}
			}
			cancelAll()
			close(fake.ch)
			synctest.Wait()
			select {
			case <-readerDone:
			default:
				fail("reader did not return after the inner conn failed")
			}
		})
		kinds := []string{}
		for _, op := range ops {
			kinds = append(kinds, op.String())
		}
		st.Case(near, strings.Join(kinds, ","), nil, func() string { return strings.Join(kinds, " ; ") })
		if failure != "" {
			rt.Fatalf("C20: %s", failure)
		}
	})
}

// channel-based fake for synctest bubbles (a channel receive is "durably blocked"; a sync.Cond wait is too, but keep it simple)
type vC20FakeChan struct {
	ch chan vC20Pkt
}

func vC20NewFakeChan() *vC20FakeChan { return &vC20FakeChan{ch: make(chan vC20Pkt)} }

func (f *vC20FakeChan) ReadFrom(p []byte) (int, net.Addr, error) {
	pk, ok := <-f.ch
	if !ok {
		return 0, nil, net.ErrClosed
	}
	return copy(p, pk.b), pk.from, nil
}
func (f *vC20FakeChan) WriteTo(p []byte, addr net.Addr) (int, error) { return len(p), nil }
func (f *vC20FakeChan) Close() error                                 { return nil }
func (f *vC20FakeChan) LocalAddr() net.Addr                          { return &net.UDPAddr{IP: net.IPv4zero, Port: 4433} }
func (f *vC20FakeChan) SetDeadline(t time.Time) error                { return nil }
func (f *vC20FakeChan) SetReadDeadline(t time.Time) error            { return nil }
func (f *vC20FakeChan) SetWriteDeadline(t time.Time) error           { return nil }

// ---------------------------------------------------------------- regression: reserved bits

// TestVerifC20_Regress_StunReservedBits: a datagram whose first byte has one of
// the two most significant bits set is not a STUN message (RFC 5389 §6; these
// are exactly the first bytes of QUIC short/long headers). It must reach QUIC
// even if the rest of it reads like a Binding success response.
func TestVerifC20_Regress_StunReservedBits(t *testing.T) {
	st := newVStats("TestVerifC20_Regress_StunReservedBits")
	defer st.Flush()
	var bad []string
	n := 0
	for _, top := range []byte{0x40, 0x80, 0xC0} {
		for variant := 0; variant < 4; variant++ {
			txid := vC20TxID(n, 77)
			var b []byte
			switch variant {
			case 0:
				b = vC20PionSTUN(txid, stun.BindingSuccess, &stun.XORMappedAddress{IP: net.IPv4(203, 0, 113, 9), Port: 40000})
			case 1:
				b = vC20PionSTUN(txid, stun.BindingSuccess, &stun.MappedAddress{IP: net.IPv4(203, 0, 113, 9), Port: 40000})
			case 2:
				b = vC20PionSTUN(txid, stun.BindingSuccess, &stun.XORMappedAddress{IP: net.ParseIP("2001:db8::9"), Port: 40000}, stun.Fingerprint)
			default:
				b = vC20RawSTUN(0x0101, txid, []vC20Attr{{0x0020, vC20XorAddrValue(txid, netip.MustParseAddrPort("203.0.113.9:40000"), true)}})
			}
			b[0] |= top
			pkt := vC20Pkt{b: b, kind: "stun-reserved-bits", from: vC20From(n, n)}
			n++
			fake := vC20NewFake(false)
			pc, err := NewPunchPacketConn(fake, 4)
			if err != nil {
				t.Fatal(err)
			}
			fake.push(pkt)
			buf := make([]byte, 2048)
			rn, addr, rerr := pc.ReadFrom(buf)
			st.Case(true, fmt.Sprintf("%x/%d", top, variant), []string{"pkt:stun-reserved-bits"}, func() string { return vC20Hex(b) })
			if rerr != nil {
				bad = append(bad, fmt.Sprintf("first byte %#02x: withheld (STUN events: %d): %s", b[0], len(vC20DrainSTUN(pc)), vC20Hex(b)))
				continue
			}
			if _, err := vC20JudgeReturned([]vC20Exp{{pkt: pkt, allowPass: true}}, []vC20Ret{{b: buf[:rn], addr: addr}}); err != nil {
				t.Fatalf("C20: %v", err)
			}
		}
	}
	if len(bad) > 0 {
		msg := fmt.Sprintf("C20: %d of %d datagrams that are not STUN messages (most significant two bits of the first byte not zero: QUIC header forms) were withheld from QUIC as STUN binding responses:\n  %s",
			len(bad), n, strings.Join(bad, "\n  "))
		t.Fatal(msg)
	}
}

// ---------------------------------------------------------------- native fuzz target

// FuzzVerifC20_Classify: (packet bytes, registered metadata) -> the conn must
// treat the packet as the reference classifier says. mode bit 0: the bytes
// after the 8-byte salt are a *plain* punch body and get masked with the
// registered key first (lets coverage reach behind the SHA-256 mask); bit 1:
// register a second attempt whose nonce differs in one bit; bit 2: remove the
// first attempt again before injecting.
func FuzzVerifC20_Classify(f *testing.F) {
	var m vC20Meta
	copy(m.nonce[:], vC20Fill(1, 16))
	copy(m.key[:], vC20Fill(2, 32))
	plain := func(typ byte, nonce []byte, pad int) []byte {
		b := append([]byte("saltsalt"), vC20Magic...)
		b = append(b, typ)
		b = append(b, nonce...)
		return append(b, vC20Fill(9, pad)...)
	}
	txid := vC20TxID(0, 5)
	okStun := vC20PionSTUN(txid, stun.BindingSuccess, &stun.XORMappedAddress{IP: net.IPv4(1, 2, 3, 4), Port: 5})
	for mode := byte(0); mode < 8; mode++ {
		f.Add(plain(1, m.nonce[:], 0), m.nonce[:], m.key[:], mode|1)
		f.Add(plain(2, m.nonce[:], 1024), m.nonce[:], m.key[:], mode|1)
		f.Add(plain(2, m.nonce[:], 1025), m.nonce[:], m.key[:], mode|1)
		f.Add(plain(3, m.nonce[:], 7), m.nonce[:], m.key[:], mode|1)
		f.Add(plain(1, m.key[:16], 7), m.nonce[:], m.key[:], mode|1)
		f.Add(vC20Encode(1, m, []byte("12345678"), nil), m.nonce[:], m.key[:], mode&^1)
		f.Add(okStun, m.nonce[:], m.key[:], mode)
	}
	f.Add(vC20PionSTUN(txid, stun.BindingSuccess, &stun.MappedAddress{IP: net.ParseIP("2001:db8::1"), Port: 5}), m.nonce[:], m.key[:], byte(0))
	f.Add(vC20PionSTUN(txid, stun.BindingError, stun.ErrorCodeAttribute{Code: 400, Reason: []byte("x")}), m.nonce[:], m.key[:], byte(0))
	f.Add(vC20PionSTUN(txid, stun.BindingRequest), m.nonce[:], m.key[:], byte(0))
	f.Add(okStun[:len(okStun)-1], m.nonce[:], m.key[:], byte(0))
	f.Add(append(append([]byte(nil), okStun...), 0), m.nonce[:], m.key[:], byte(0))
	f.Add(append([]byte{0xC3, 0, 0, 0, 1, 8}, vC20Fill(3, 1194)...), m.nonce[:], m.key[:], byte(0))
	f.Add(append([]byte{0x41}, vC20Fill(4, 40)...), m.nonce[:], m.key[:], byte(0))
	f.Add([]byte{0x01, 0x01, 0x00, 0x00, 0x21, 0x12, 0xa4, 0x42}, m.nonce[:], m.key[:], byte(0))
	for _, top := range []byte{0x40, 0x80, 0xC0} {
		rb := append([]byte(nil), okStun...)
		rb[0] |= top
		f.Add(rb, m.nonce[:], m.key[:], byte(0))
	}
	f.Add([]byte{}, []byte{}, []byte{}, byte(0))
	f.Fuzz(func(t *testing.T, data []byte, nonce []byte, key []byte, mode byte) {
		if len(data) > 1500 {
			data = data[:1500]
		}
		var m1 vC20Meta
		copy(m1.nonce[:], nonce)
		copy(m1.key[:], key)
		pkt := append([]byte(nil), data...)
		if mode&1 != 0 && len(pkt) > vC20SaltLen {
			mask := vC20Mask(m1.key, pkt[:vC20SaltLen])
			for i := vC20SaltLen; i < len(pkt); i++ {
				pkt[i] ^= mask[(i-vC20SaltLen)%32]
			}
		}
		// codec differential
		if _, err := vC20CheckDecode(pkt, m1); err != nil {
			t.Fatalf("C20: %v", err)
		}
		m2 := m1
		m2.nonce[7] ^= 0x10
		if _, err := vC20CheckDecode(pkt, m2); err != nil {
			t.Fatalf("C20: %v", err)
		}
		// demux
		fake := vC20NewFake(false)
		pc, err := NewPunchPacketConn(fake, 2)
		if err != nil {
			t.Fatal(err)
		}
		reg := vC20Reg{}
		if err := pc.AddPunchAttempt("a", m1.pm()); err != nil {
			t.Fatalf("C20: AddPunchAttempt with valid metadata: %v", err)
		}
		reg["a"] = m1
		if mode&2 != 0 {
			if err := pc.AddPunchAttempt("b", m2.pm()); err != nil {
				t.Fatalf("C20: AddPunchAttempt with valid metadata: %v", err)
			}
			reg["b"] = m2
		}
		if mode&4 != 0 {
			pc.RemovePunchAttempt("a")
			delete(reg, "a")
		}
		p := vC20Pkt{b: pkt, kind: "fuzz", from: vC20From(int(mode), int(mode))}
		e := vC20Classify(0, p, []vC20Reg{reg})
		fake.push(p)
		buf := make([]byte, 2048)
		var rets []vC20Ret
		n, addr, rerr := pc.ReadFrom(buf)
		if rerr == nil {
			rets = append(rets, vC20Ret{b: append([]byte(nil), buf[:n]...), addr: addr})
		} else if !errors.Is(rerr, vC20ErrEmpty) {
			t.Fatalf("C20: ReadFrom: %v", rerr)
		}
		returned, jerr := vC20JudgeReturned([]vC20Exp{e}, rets)
		if jerr != nil {
			t.Fatalf("C20: %v (registered %v)", jerr, reg)
		}
		if err := vC20JudgeEvents([]vC20Exp{e}, returned, vC20DrainPunch(pc), vC20DrainSTUN(pc)); err != nil {
			t.Fatalf("C20: %v (registered %v)", err, reg)
		}
	})
}
