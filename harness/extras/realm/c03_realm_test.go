package realm

// C03 — peer-controlled bytes never crash the process (hole punching / STUN).
//
// Entry points and who feeds them:
//   - PunchPacketConn.ReadFrom: every datagram arriving at the server's (or the
//     punching client's) UDP socket, from anybody; diverts STUN responses and punch
//     packets of the registered attempts, passes the rest to QUIC (buffer ~1452).
//   - DecodePunchPacket(packet, meta), parseSTUNBindingResponse(packet): the decoders
//     behind it; also driven directly with cap==len slices.
//   - Punch(): the pre-QUIC punching loop reading replies from the socket.
//   - Discover(): reads STUN server replies from the socket.
//     The punch metadata itself comes from the rendezvous server (also remote):
//     malformed metadata is generated too.
//
// The socket is a scripted fake (no real time is needed: every read returns at
// once; the script ends with a valid reply or a hard socket error).
//
// Oracle: no panic; calls return; after the junk a well-formed punch packet / STUN
// response / ordinary packet is still handled (service continues).

import (
	"bytes"
	"context"
	"crypto/sha256"
	"encoding/hex"
	"errors"
	"fmt"
	"net"
	"net/netip"
	"runtime/debug"
	"strings"
	"testing"
	"time"

	"pgregory.net/rapid"
)

func v03Guard(fn func()) (pv any, stack string) {
	defer func() {
		if r := recover(); r != nil {
			pv, stack = r, string(debug.Stack())
		}
	}()
	fn()
	return nil, ""
}

func v03Tight(b []byte) []byte {
	c := make([]byte, len(b))
	copy(c, b)
	return c[:len(c):len(c)]
}

func v03Hex(b []byte) string {
	if len(b) > 160 {
		return fmt.Sprintf("%s…(%d bytes)", hex.EncodeToString(b[:160]), len(b))
	}
	return hex.EncodeToString(b)
}

func v03Fill(n int, salt byte) []byte {
	b := make([]byte, n)
	for i := range b {
		b[i] = byte(i)*31 + salt
	}
	return b
}

func v03Mostly[T any](rt *rapid.T, label string, choices []T) T {
	if rapid.IntRange(0, 9).Draw(rt, label+"_std") < 6 {
		return choices[0]
	}
	return rapid.SampledFrom(choices).Draw(rt, label)
}

// ---- own punch codec (from the format comment in punch.go) ----

type v03Meta struct {
	nonce [16]byte
	key   [32]byte
}

func v03NewMeta(seed byte) v03Meta {
	var m v03Meta
	copy(m.nonce[:], v03Fill(16, seed))
	copy(m.key[:], v03Fill(32, seed+100))
	return m
}

func (m v03Meta) meta() PunchMetadata {
	return PunchMetadata{Nonce: hex.EncodeToString(m.nonce[:]), Obfs: hex.EncodeToString(m.key[:])}
}

// v03PunchWire: salt(8) || (magic(8) type(1) nonce(16) padding) XOR sha256(key||salt)[i mod 32]
func v03PunchWire(m v03Meta, magic []byte, typ byte, nonce []byte, padding int, salt [8]byte) []byte {
	plain := append([]byte(nil), magic...)
	plain = append(plain, typ)
	plain = append(plain, nonce...)
	plain = append(plain, v03Fill(padding, 0x5a)...)
	h := sha256.New()
	h.Write(m.key[:])
	h.Write(salt[:])
	mask := h.Sum(nil)
	out := append([]byte(nil), salt[:]...)
	for i, c := range plain {
		out = append(out, c^mask[i%32])
	}
	return out
}

var v03Magic = []byte{'H', 'Y', 'R', 'L', 'M', 'v', '1', 0}

func v03GoodPunch(m v03Meta, typ byte, padding int) []byte {
	return v03PunchWire(m, v03Magic, typ, m.nonce[:], padding, [8]byte{1, 2, 3, 4, 5, 6, 7, 8})
}

// ---- own STUN writer (RFC 8489 layout) ----

type v03Attr struct {
	typ      uint16
	val      []byte
	lenField int // -1 = honest
}

func v03STUN(msgType uint16, lenAdj int, cookie uint32, txid [12]byte, attrs []v03Attr) []byte {
	var body []byte
	for _, a := range attrs {
		l := len(a.val)
		if a.lenField >= 0 {
			l = a.lenField
		}
		body = append(body, byte(a.typ>>8), byte(a.typ), byte(l>>8), byte(l))
		body = append(body, a.val...)
		for len(body)%4 != 0 {
			body = append(body, 0)
		}
	}
	l := len(body) + lenAdj
	if l < 0 {
		l = 0
	}
	out := []byte{byte(msgType >> 8), byte(msgType), byte(l >> 8), byte(l), byte(cookie >> 24), byte(cookie >> 16), byte(cookie >> 8), byte(cookie)}
	out = append(out, txid[:]...)
	return append(out, body...)
}

const v03Cookie = 0x2112A442

func v03XorMapped(family byte, ip []byte, port uint16, txid [12]byte) []byte {
	v := []byte{0, family, byte(port>>8) ^ 0x21, byte(port) ^ 0x12}
	mask := append([]byte{0x21, 0x12, 0xA4, 0x42}, txid[:]...)
	for i, b := range ip {
		v = append(v, b^mask[i%16])
	}
	return v
}

func v03Mapped(family byte, ip []byte, port uint16) []byte {
	return append([]byte{0, family, byte(port >> 8), byte(port)}, ip...)
}

func v03GoodSTUN(txid [12]byte) []byte {
	return v03STUN(0x0101, 0, v03Cookie, txid, []v03Attr{{0x0020, v03XorMapped(1, []byte{203, 0, 113, 7}, 40000, txid), -1}})
}

// ---- generators ----

func v03GenPunchLike(rt *rapid.T, metas []v03Meta) ([]byte, string) {
	m := v03NewMeta(200)
	if len(metas) > 0 && rapid.IntRange(0, 9).Draw(rt, "knownMeta") < 8 {
		m = rapid.SampledFrom(metas).Draw(rt, "meta")
	}
	magic := append([]byte(nil), v03Magic...)
	nonce := append([]byte(nil), m.nonce[:]...)
	typ := v03Mostly(rt, "ptype", []byte{1, 2, 0, 3, 0xff})
	padding := rapid.SampledFrom([]int{0, 0, 1, 100, 1023, 1024, 1025, 1400}).Draw(rt, "padding")
	desc := fmt.Sprintf("punch type=%d pad=%d", typ, padding)
	switch rapid.IntRange(0, 9).Draw(rt, "pmut") {
	case 9:
		magic[rapid.IntRange(0, 7).Draw(rt, "magicAt")] ^= 0x01
		desc += " bad-magic"
	case 8:
		nonce[rapid.IntRange(0, 15).Draw(rt, "nonceAt")] ^= 0x80
		desc += " bad-nonce"
	case 7:
		nonce = nonce[:rapid.IntRange(0, 15).Draw(rt, "nonceLen")]
		padding = 0
		desc += " short-nonce"
	}
	var salt [8]byte
	copy(salt[:], v03Fill(8, rapid.Byte().Draw(rt, "salt")))
	w := v03PunchWire(m, magic, typ, nonce, padding, salt)
	if rapid.IntRange(0, 9).Draw(rt, "pcut") == 9 {
		w = w[:rapid.IntRange(0, len(w)).Draw(rt, "pcutAt")]
		desc += " cut"
	}
	return w, desc
}

func v03GenSTUNLike(rt *rapid.T, txids [][12]byte) ([]byte, string) {
	var txid [12]byte
	copy(txid[:], v03Fill(12, rapid.Byte().Draw(rt, "txSalt")))
	if len(txids) > 0 && rapid.Bool().Draw(rt, "knownTx") {
		txid = rapid.SampledFrom(txids).Draw(rt, "tx")
	}
	msgType := v03Mostly(rt, "stunType", []uint16{0x0101, 0x0001, 0x0111, 0x0011, 0x0102, 0x4101, 0xffff, 0x0000})
	cookie := v03Mostly(rt, "cookie", []uint32{v03Cookie, 0, 0x2112A443, 0xffffffff})
	var attrs []v03Attr
	for k := rapid.IntRange(0, 4).Draw(rt, "nattrs"); k > 0; k-- {
		var a v03Attr
		a.lenField = -1
		switch rapid.IntRange(0, 7).Draw(rt, "attrKind") {
		case 0, 1:
			fam := v03Mostly(rt, "xfam", []byte{1, 2, 0, 3, 0xff})
			ipLen := v03Mostly(rt, "xipLen", []int{4, 16, 0, 3, 5, 15, 17, 32})
			a = v03Attr{0x0020, v03XorMapped(fam, v03Fill(ipLen, 3), uint16(rapid.SampledFrom([]int{40000, 0, 1, 65535, 0x2112}).Draw(rt, "xport")), txid), -1}
		case 2:
			fam := v03Mostly(rt, "mfam", []byte{1, 2, 0, 9})
			ipLen := v03Mostly(rt, "mipLen", []int{4, 16, 0, 3, 5, 17})
			a = v03Attr{0x0001, v03Mapped(fam, v03Fill(ipLen, 4), uint16(rapid.SampledFrom([]int{5555, 0, 65535}).Draw(rt, "mport"))), -1}
		case 3:
			a = v03Attr{rapid.SampledFrom([]uint16{0x0020, 0x0001}).Draw(rt, "shortAttrType"), rapid.SliceOfN(rapid.Byte(), 0, 3).Draw(rt, "shortVal"), -1}
		case 4:
			a = v03Attr{rapid.SampledFrom([]uint16{0x8022, 0x0008, 0x8028, 0x0009, 0x0006, 0xffff}).Draw(rt, "otherAttr"), rapid.SliceOfN(rapid.Byte(), 0, 24).Draw(rt, "otherVal"), -1}
		default:
			a = v03Attr{0x0020, v03XorMapped(1, []byte{1, 2, 3, 4}, 1234, txid), -1}
		}
		if rapid.IntRange(0, 9).Draw(rt, "attrLenLie") == 9 {
			a.lenField = rapid.SampledFrom([]int{0, 1, 4, 7, 8, 9, 20, 21, 1000, 65535}).Draw(rt, "attrLen")
		}
		attrs = append(attrs, a)
	}
	lenAdj := v03Mostly(rt, "stunLenAdj", []int{0, -4, 4, -1, 1, 1000, -1000})
	pkt := v03STUN(msgType, lenAdj, cookie, txid, attrs)
	desc := fmt.Sprintf("stun type=%#x cookie=%#x attrs=%d lenAdj=%d", msgType, cookie, len(attrs), lenAdj)
	if rapid.IntRange(0, 9).Draw(rt, "scut") == 9 {
		pkt = pkt[:rapid.IntRange(0, len(pkt)).Draw(rt, "scutAt")]
		desc += " cut"
	}
	return pkt, desc
}

func v03GenAnyPacket(rt *rapid.T, metas []v03Meta, txids [][12]byte) ([]byte, string) {
	switch rapid.IntRange(0, 9).Draw(rt, "pktKind") {
	case 0, 1, 2, 3:
		return v03GenPunchLike(rt, metas)
	case 4, 5, 6, 7:
		return v03GenSTUNLike(rt, txids)
	case 8:
		l := rapid.SampledFrom([]int{0, 1, 19, 20, 21, 32, 33, 34, 1057, 1058, 1200, 1452}).Draw(rt, "qlen")
		return append([]byte{rapid.SampledFrom([]byte{0x40, 0xc0, 0x00, 0x01}).Draw(rt, "qfirst")}, v03Fill(max(0, l-1), 5)...)[:l], fmt.Sprintf("quic-like %d bytes", l)
	default:
		b := rapid.SliceOfN(rapid.Byte(), 0, 40).Draw(rt, "anyBytes")
		return b, "arbitrary"
	}
}

// ---- decoders, directly ----

func v03RunDecodePunch(pkt []byte, meta PunchMetadata) (string, error) {
	in := v03Tight(pkt)
	var cls string
	pv, stack := v03Guard(func() {
		p, err := DecodePunchPacket(in, meta)
		if err != nil {
			cls = "err:" + strings.TrimPrefix(err.Error(), "invalid punch packet: ")
		} else {
			cls = fmt.Sprintf("ok:type%d", p.Type)
			if p.PaddingLength < 0 || p.PaddingLength > MaxPunchPadding {
				cls = "ok:bad-padding"
			}
		}
	})
	if pv != nil {
		return "PANIC", fmt.Errorf("DecodePunchPacket panicked: %v\npacket (hex, %d bytes, cap==len): %s\nmeta: %+v\n%s", pv, len(pkt), v03Hex(pkt), meta, stack)
	}
	m := v03NewMeta(1)
	p, err := DecodePunchPacket(v03Tight(v03GoodPunch(m, 2, 33)), m.meta())
	if err != nil || p.Type != PunchPacketAck || p.PaddingLength != 33 {
		return cls, fmt.Errorf("service did not continue: a well-formed punch packet after %s decoded to %+v, %v", v03Hex(pkt), p, err)
	}
	return cls, nil
}

func v03RunParseSTUN(pkt []byte) (string, error) {
	in := v03Tight(pkt)
	var cls string
	pv, stack := v03Guard(func() {
		msg, addr, err := parseSTUNBindingResponse(in)
		switch {
		case err != nil:
			cls = "err"
			s := err.Error()
			for _, k := range []string{"not a STUN binding success", "mapped address not found", "invalid STUN mapped port", "invalid STUN mapped IP", "unexpected EOF", "buffer too small", "attribute", "header"} {
				if strings.Contains(s, k) {
					cls = "err:" + k
					break
				}
			}
		case msg == nil:
			cls = "nil-nil"
		default:
			cls = "ok"
			_ = addr.String()
		}
	})
	if pv != nil {
		return "PANIC", fmt.Errorf("parseSTUNBindingResponse panicked: %v\npacket (hex, %d bytes, cap==len): %s\n%s", pv, len(pkt), v03Hex(pkt), stack)
	}
	var txid [12]byte
	copy(txid[:], "abcdefghijkl")
	msg, addr, err := parseSTUNBindingResponse(v03Tight(v03GoodSTUN(txid)))
	if err != nil || msg == nil || msg.TransactionID != txid || addr != netip.MustParseAddrPort("203.0.113.7:40000") {
		return cls, fmt.Errorf("service did not continue: a well-formed STUN binding response after %s parsed to %v, %v", v03Hex(pkt), addr, err)
	}
	return cls, nil
}

func TestVerifC03_PunchDecode(t *testing.T) {
	st := newVStats("TestVerifC03_PunchDecode")
	defer st.Flush()
	rapid.Check(t, func(rt *rapid.T) {
		m := v03NewMeta(rapid.Byte().Draw(rt, "metaSeed"))
		pkt, desc := v03GenAnyPacket(rt, []v03Meta{m}, nil)
		meta := m.meta()
		switch rapid.IntRange(0, 19).Draw(rt, "metaMut") {
		case 19:
			meta.Nonce = rapid.SampledFrom([]string{"", "zz", "00", meta.Nonce + "00", meta.Nonce[:31], strings.Repeat("g", 32)}).Draw(rt, "badNonce")
		case 18:
			meta.Obfs = rapid.SampledFrom([]string{"", "0", meta.Obfs[:62], meta.Obfs + "ff"}).Draw(rt, "badObfs")
		}
		cls, err := v03RunDecodePunch(pkt, meta)
		nt := len(pkt) >= punchMinWireLen && len(pkt) <= punchMaxWireLen // past the length window
		st.Case(nt, fmt.Sprintf("%s|%s|%d", cls, desc, len(pkt)), []string{cls}, func() string { return desc + " -> " + cls + " : " + v03Hex(pkt) })
		if err != nil {
			rt.Fatalf("C03: %v", err)
		}
	})
}

func TestVerifC03_STUNParse(t *testing.T) {
	st := newVStats("TestVerifC03_STUNParse")
	defer st.Flush()
	rapid.Check(t, func(rt *rapid.T) {
		var pkt []byte
		var desc string
		if rapid.IntRange(0, 9).Draw(rt, "other") == 9 {
			pkt, desc = v03GenAnyPacket(rt, nil, nil)
		} else {
			pkt, desc = v03GenSTUNLike(rt, nil)
		}
		cls, err := v03RunParseSTUN(pkt)
		nt := len(pkt) >= 20 // a full STUN header: length/cookie/attributes are examined
		st.Case(nt, fmt.Sprintf("%s|%s", cls, v03Hex(pkt[:min(len(pkt), 28)])), []string{cls}, func() string { return desc + " -> " + cls + " : " + v03Hex(pkt) })
		if err != nil {
			rt.Fatalf("C03: %v", err)
		}
	})
}

// ---- scripted socket ----

type v03Pkt struct {
	src  net.Addr
	data []byte
	desc string
}

type v03Sock struct {
	script   []v03Pkt
	pos      int
	endErr   error
	sent     [][]byte
	sentTo   []net.Addr
	onSend   func(p []byte) // lets the script react to what the code under test sent
	local    net.Addr
	deadline int
}

func (s *v03Sock) ReadFrom(p []byte) (int, net.Addr, error) {
	if s.pos >= len(s.script) {
		return 0, nil, s.endErr
	}
	k := s.script[s.pos]
	s.pos++
	return copy(p, k.data), k.src, nil
}
func (s *v03Sock) WriteTo(p []byte, a net.Addr) (int, error) {
	s.sent = append(s.sent, append([]byte(nil), p...))
	s.sentTo = append(s.sentTo, a)
	if s.onSend != nil {
		s.onSend(p)
	}
	return len(p), nil
}
func (s *v03Sock) Close() error { return nil }
func (s *v03Sock) LocalAddr() net.Addr {
	if s.local != nil {
		return s.local
	}
	return &net.UDPAddr{IP: net.IPv4(192, 0, 2, 1), Port: 4433}
}
func (s *v03Sock) SetDeadline(time.Time) error      { return nil }
func (s *v03Sock) SetReadDeadline(time.Time) error  { s.deadline++; return nil }
func (s *v03Sock) SetWriteDeadline(time.Time) error { return nil }

var v03ErrSockClosed = errors.New("v03: socket closed (end of script)")

type v03OddAddr struct{}

func (v03OddAddr) Network() string { return "odd" }
func (v03OddAddr) String() string  { return "odd-address" }

func v03GenSrc(rt *rapid.T) net.Addr {
	switch rapid.IntRange(0, 9).Draw(rt, "srcKind") {
	case 9:
		return v03OddAddr{}
	case 8:
		return &net.UDPAddr{IP: nil, Port: 1}
	case 7:
		return &net.UDPAddr{IP: net.ParseIP("2001:db8::7"), Port: 65535}
	case 6:
		return &net.UDPAddr{IP: net.IPv4(198, 51, 100, 9), Port: 0}
	default:
		return &net.UDPAddr{IP: net.IPv4(198, 51, 100, byte(rapid.IntRange(1, 4).Draw(rt, "srcHost"))), Port: 7000}
	}
}

func v03RenderScript(script []v03Pkt) string {
	var sb strings.Builder
	for i, k := range script {
		fmt.Fprintf(&sb, "  #%d from %v: %s : %s\n", i, k.src, k.desc, v03Hex(k.data))
	}
	return sb.String()
}

// ---- PunchPacketConn.ReadFrom ----

func TestVerifC03_PunchConnReadFrom(t *testing.T) {
	st := newVStats("TestVerifC03_PunchConnReadFrom")
	defer st.Flush()
	rapid.Check(t, func(rt *rapid.T) {
		var metas []v03Meta
		for k := rapid.IntRange(0, 3).Draw(rt, "nattempts"); k > 0; k-- {
			metas = append(metas, v03NewMeta(byte(10*k)))
		}
		var script []v03Pkt
		for k := rapid.IntRange(1, 25).Draw(rt, "n"); k > 0; k-- {
			d, desc := v03GenAnyPacket(rt, metas, nil)
			script = append(script, v03Pkt{v03GenSrc(rt), d, desc})
		}
		bufSize := rapid.SampledFrom([]int{1452, 2048, 1200}).Draw(rt, "bufSize")
		evBuf := rapid.SampledFrom([]int{0, 1, 16}).Draw(rt, "eventBuffer")

		// the probe: a fresh attempt's Hello, a STUN response, an ordinary QUIC-looking packet
		probeMeta := v03NewMeta(77)
		goodSrc := &net.UDPAddr{IP: net.IPv4(203, 0, 113, 50), Port: 50000}
		var txid [12]byte
		copy(txid[:], "probe-txid-1")
		ordinary := append([]byte{0x43}, v03Fill(60, 8)...)
		// a marker that is passed through to the reader separates the hostile phase from the probe:
		// the reader (like the real consumers) then empties the event channels and registers the probe attempt
		marker := append([]byte{0x44}, []byte("c03-marker-between-phases")...)
		full := append(append([]v03Pkt(nil), script...),
			v03Pkt{goodSrc, marker, "marker"},
			v03Pkt{goodSrc, v03GoodPunch(probeMeta, 1, 10), "probe hello"},
			v03Pkt{goodSrc, v03GoodSTUN(txid), "probe stun"},
			v03Pkt{goodSrc, ordinary, "probe ordinary"})
		sock := &v03Sock{script: full, endErr: v03ErrSockClosed}
		var got [][]byte
		var endErr error
		var conn *PunchPacketConn
		var punchEvents []PunchPacketEvent
		var stunEvents []STUNPacketEvent
		pv, stack := v03Guard(func() {
			var err error
			conn, err = NewPunchPacketConn(sock, evBuf)
			if err != nil {
				panic(err)
			}
			for i, m := range metas {
				if err := conn.AddPunchAttempt(fmt.Sprintf("attempt-%d", i), m.meta()); err != nil {
					panic(err)
				}
			}
			p := make([]byte, bufSize)
			drain := func() {
				for {
					select {
					case ev := <-conn.Events():
						punchEvents = append(punchEvents, ev)
					case ev := <-conn.STUNEvents():
						stunEvents = append(stunEvents, ev)
					default:
						return
					}
				}
			}
			for i := 0; i < len(full)+5; i++ {
				n, _, err := conn.ReadFrom(p)
				if err != nil {
					endErr = err
					break
				}
				if bytes.Equal(p[:n], marker) {
					drain()
					if err := conn.AddPunchAttempt("probe", probeMeta.meta()); err != nil {
						panic(err)
					}
					continue
				}
				got = append(got, append([]byte(nil), p[:n]...))
			}
			drain()
		})
		if pv != nil {
			rt.Fatalf("C03: PunchPacketConn.ReadFrom panicked: %v\nattempts=%d buffer=%d\n%s%s", pv, len(metas), bufSize, v03RenderScript(script), stack)
		}
		classes := []string{}
		if endErr != v03ErrSockClosed {
			rt.Fatalf("C03: reader loop ended with %v instead of the socket's error\n%s", endErr, v03RenderScript(script))
		}
		okOrdinary := len(got) > 0 && bytes.Equal(got[len(got)-1], ordinary)
		okPunch, okSTUN := false, false
		for _, ev := range punchEvents {
			if ev.AttemptID == "probe" && ev.Packet.Type == PunchPacketHello && ev.From == netip.MustParseAddrPort("203.0.113.50:50000") {
				okPunch = true
			} else {
				classes = append(classes, "hostile-punch-event")
			}
		}
		for _, ev := range stunEvents {
			if ev.Message != nil && ev.Message.TransactionID == txid {
				okSTUN = true
			} else {
				classes = append(classes, "hostile-stun-event")
			}
		}
		if len(got) > 1 {
			classes = append(classes, "passed-to-quic")
		}
		st.Case(true, fmt.Sprintf("%d|%d|%d|%d", len(script), len(got), len(punchEvents), len(stunEvents)), classes,
			func() string { return fmt.Sprintf("attempts=%d buf=%d\n%s", len(metas), bufSize, v03RenderScript(script)) })
		if !okOrdinary || !okPunch || !okSTUN {
			rt.Fatalf("C03: service did not continue after the hostile datagrams: ordinary packet passed=%v, probe punch event=%v, probe STUN event=%v\nattempts=%d buffer=%d eventBuffer=%d\n%s",
				okOrdinary, okPunch, okSTUN, len(metas), bufSize, evBuf, v03RenderScript(script))
		}
	})
}

// ---- Punch() ----

func TestVerifC03_PunchLoop(t *testing.T) {
	st := newVStats("TestVerifC03_PunchLoop")
	defer st.Flush()
	rapid.Check(t, func(rt *rapid.T) {
		m := v03NewMeta(byte(rapid.IntRange(0, 100).Draw(rt, "metaSeed"))) // never the generator's fallback key (200)
		var script []v03Pkt
		for k := rapid.IntRange(0, 20).Draw(rt, "n"); k > 0; k-- {
			// junk that must not end the loop: everything except a valid packet for this attempt
			d, desc := v03GenAnyPacket(rt, []v03Meta{v03NewMeta(m.nonce[0] + 1)}, nil)
			script = append(script, v03Pkt{v03GenSrc(rt), d, desc})
		}
		ending := rapid.SampledFrom([]string{"hello", "ack", "socket-error"}).Draw(rt, "ending")
		peer := &net.UDPAddr{IP: net.IPv4(203, 0, 113, 9), Port: 9999}
		full := append([]v03Pkt(nil), script...)
		switch ending {
		case "hello":
			full = append(full, v03Pkt{peer, v03GoodPunch(m, 1, 0), "valid hello"})
		case "ack":
			full = append(full, v03Pkt{peer, v03GoodPunch(m, 2, 1024), "valid ack"})
		}
		sock := &v03Sock{script: full, endErr: v03ErrSockClosed}
		var res PunchResult
		var err error
		pv, stack := v03Guard(func() {
			ctx, cancel := context.WithTimeout(context.Background(), 30*time.Second)
			defer cancel()
			res, err = Punch(ctx, sock, []netip.AddrPort{netip.MustParseAddrPort("192.0.2.1:4433")},
				[]netip.AddrPort{netip.MustParseAddrPort("203.0.113.9:9999")}, m.meta(), PunchConfig{Timeout: 30 * time.Second, Interval: time.Hour})
		})
		if pv != nil {
			rt.Fatalf("C03: Punch panicked: %v\n%s%s", pv, v03RenderScript(script), stack)
		}
		cls := "ended:" + ending
		st.Case(len(script) > 0, fmt.Sprintf("%s|%d", ending, len(script)), []string{cls}, func() string { return ending + "\n" + v03RenderScript(script) })
		switch ending {
		case "socket-error":
			if !errors.Is(err, v03ErrSockClosed) {
				// a junk packet that decodes as valid for this attempt would be a harness bug, not a finding: report as such
				rt.Fatalf("C03: Punch returned (%+v, %v) although only junk and a socket error were delivered\n%s", res, err, v03RenderScript(script))
			}
		default:
			want := PunchPacketHello
			if ending == "ack" {
				want = PunchPacketAck
			}
			if err != nil || res.Packet.Type != want || res.PeerAddr != netip.MustParseAddrPort("203.0.113.9:9999") {
				rt.Fatalf("C03: service did not continue: Punch returned (%+v, %v) for a valid %s after %d junk replies\n%s", res, err, ending, len(script), v03RenderScript(script))
			}
		}
	})
}

// ---- Discover() ----

type v03Resolver struct{}

func (v03Resolver) LookupIPAddr(_ context.Context, host string) ([]net.IPAddr, error) {
	return []net.IPAddr{{IP: net.IPv4(198, 51, 100, 53)}}, nil
}

func TestVerifC03_STUNDiscover(t *testing.T) {
	st := newVStats("TestVerifC03_STUNDiscover")
	defer st.Flush()
	rapid.Check(t, func(rt *rapid.T) {
		sock := &v03Sock{endErr: v03ErrSockClosed}
		var txids [][12]byte
		sock.onSend = func(p []byte) {
			if len(p) >= 20 {
				var id [12]byte
				copy(id[:], p[8:20])
				txids = append(txids, id)
			}
		}
		// the script is drawn first; the request's transaction id is only known after Discover has
		// sent it, so replies that reuse it are patched in by position when the socket is read.
		type step struct {
			pkt     []byte
			desc    string
			useTxid bool
		}
		var steps []step
		for k := rapid.IntRange(0, 15).Draw(rt, "n"); k > 0; k-- {
			d, desc := v03GenAnyPacket(rt, nil, nil)
			steps = append(steps, step{d, desc, rapid.IntRange(0, 3).Draw(rt, "patchTxid") == 3})
		}
		ending := rapid.SampledFrom([]string{"valid", "socket-error"}).Draw(rt, "ending")
		var rendered []v03Pkt
		srv := &net.UDPAddr{IP: net.IPv4(198, 51, 100, 53), Port: 3478}
		sockRead := 0
		reader := &v03SockFn{v03Sock: sock, read: func(p []byte) (int, net.Addr, error) {
			if sockRead < len(steps) {
				s := steps[sockRead]
				sockRead++
				d := append([]byte(nil), s.pkt...)
				if s.useTxid && len(d) >= 20 && len(txids) > 0 {
					copy(d[8:20], txids[0][:]) // right transaction, hostile rest
				}
				rendered = append(rendered, v03Pkt{srv, d, s.desc})
				return copy(p, d), srv, nil
			}
			if ending == "valid" && sockRead == len(steps) && len(txids) > 0 {
				sockRead++
				return copy(p, v03GoodSTUN(txids[0])), srv, nil
			}
			return 0, nil, v03ErrSockClosed
		}}
		var addrs []netip.AddrPort
		var err error
		pv, stack := v03Guard(func() {
			addrs, err = Discover(context.Background(), reader, STUNConfig{Servers: []string{"stun.test:3478"}, Timeout: 30 * time.Second, Resolver: v03Resolver{}})
		})
		if pv != nil {
			rt.Fatalf("C03: Discover panicked: %v\n%s%s", pv, v03RenderScript(rendered), stack)
		}
		cls := "ended:" + ending
		if err == nil {
			cls += ":result"
		} else {
			cls += ":error"
		}
		st.Case(len(steps) > 0, fmt.Sprintf("%s|%d", cls, len(steps)), []string{cls}, func() string { return cls + "\n" + v03RenderScript(rendered) })
		// a hostile reply carrying the right transaction id and a parsable address legitimately ends the
		// query early, so only the "nothing usable arrived" direction is asserted
		if ending == "valid" && err != nil {
			rt.Fatalf("C03: service did not continue: Discover failed (%v) although a well-formed response for its transaction followed the junk\n%s", err, v03RenderScript(rendered))
		}
		_ = addrs
	})
}

type v03SockFn struct {
	*v03Sock
	read func(p []byte) (int, net.Addr, error)
}

func (s *v03SockFn) ReadFrom(p []byte) (int, net.Addr, error) { return s.read(p) }

// ---- native fuzz ----

func FuzzVerifC03_RealmDatagram(f *testing.F) {
	m := v03NewMeta(1)
	var txid [12]byte
	copy(txid[:], "abcdefghijkl")
	f.Add(v03GoodPunch(m, 1, 0))
	f.Add(v03GoodPunch(m, 2, 1024))
	f.Add(v03GoodPunch(m, 1, 1025))
	f.Add(v03GoodPunch(m, 1, 0)[:32])
	f.Add(v03GoodSTUN(txid))
	f.Add(v03STUN(0x0101, 0, v03Cookie, txid, []v03Attr{{0x0001, v03Mapped(2, v03Fill(16, 1), 5555), -1}}))
	f.Add(v03STUN(0x0101, 0, v03Cookie, txid, []v03Attr{{0x0020, []byte{0, 1, 0}, -1}}))
	f.Add(v03STUN(0x0101, 0, v03Cookie, txid, []v03Attr{{0x0020, v03XorMapped(2, v03Fill(4, 1), 1, txid), -1}}))
	f.Add(v03STUN(0x0101, 0, v03Cookie, txid, []v03Attr{{0x0020, v03XorMapped(1, v03Fill(4, 1), 1, txid), 65535}}))
	f.Add(v03STUN(0x0101, 4, v03Cookie, txid, nil))
	f.Add(v03STUN(0x0001, 0, v03Cookie, txid, nil))
	f.Add(v03STUN(0x0111, 0, v03Cookie, txid, []v03Attr{{0x0009, []byte{0, 0, 4, 1}, -1}}))
	f.Add(v03STUN(0x0011, 0, v03Cookie, txid, nil))
	f.Add([]byte{})
	f.Fuzz(func(t *testing.T, data []byte) {
		if _, err := v03RunDecodePunch(data, m.meta()); err != nil {
			t.Fatalf("C03: %v", err)
		}
		if _, err := v03RunParseSTUN(data); err != nil {
			t.Fatalf("C03: %v", err)
		}
		// and through the demultiplexer, with a registered attempt
		sock := &v03Sock{script: []v03Pkt{{&net.UDPAddr{IP: net.IPv4(1, 2, 3, 4), Port: 5}, data, "fuzz"}}, endErr: v03ErrSockClosed}
		pv, stack := v03Guard(func() {
			conn, _ := NewPunchPacketConn(sock, 4)
			_ = conn.AddPunchAttempt("a", m.meta())
			p := make([]byte, 1452)
			for i := 0; i < 3; i++ {
				if _, _, err := conn.ReadFrom(p); err != nil {
					break
				}
			}
		})
		if pv != nil {
			t.Fatalf("C03: PunchPacketConn.ReadFrom panicked: %v\ndatagram (hex): %s\n%s", pv, v03Hex(data), stack)
		}
		// two steps: the datagram is demultiplexed now, discovery and a punch round run later
		if err := v03DemuxAfterDatagram(data); err != nil {
			t.Fatalf("C03: %v", err)
		}
	})
}
