package realm

// C20, codec part: "A punch packet decodes only under exactly the metadata
// that encoded it, for every padding length and type."
//
// Oracle: the harness's own encoder/decoder (c20_ref_test.go) plus expectations
// that hold by construction (intact packet + same metadata -> decodes with the
// type and padding it was built with; metadata differing in one nibble -> does
// not; a bit flipped in the padding -> still decodes; a bit flipped in salt,
// magic, type or nonce -> does not; outside the 33..1057 byte window -> does not).

import (
	"bytes"
	"fmt"
	"testing"

	"pgregory.net/rapid"
)

// vC20CheckDecode compares DecodePunchPacket with the reference decoder on
// (pkt, meta) and checks that the input is left untouched.
func vC20CheckDecode(pkt []byte, m vC20Meta) (ok bool, err error) {
	keep := append([]byte(nil), pkt...)
	got, derr := DecodePunchPacket(pkt, m.pm())
	if !bytes.Equal(keep, pkt) {
		return false, fmt.Errorf("DecodePunchPacket modified its input: before %s after %s", vC20Hex(keep), vC20Hex(pkt))
	}
	typ, pad, rok := vC20Decode(pkt, m)
	if rok != (derr == nil) {
		return rok, fmt.Errorf("DecodePunchPacket err=%v, reference decoder ok=%v (type=%#02x pad=%d) for %d-byte packet %s under %v",
			derr, rok, typ, pad, len(pkt), vC20Hex(pkt), m)
	}
	if rok && (byte(got.Type) != typ || got.PaddingLength != pad) {
		return rok, fmt.Errorf("DecodePunchPacket = {type %#02x, padding %d}, reference = {type %#02x, padding %d} for %s under %v",
			byte(got.Type), got.PaddingLength, typ, pad, vC20Hex(pkt), m)
	}
	return rok, nil
}

func TestVerifC20_Codec(t *testing.T) {
	st := newVStats("TestVerifC20_Codec")
	defer st.Flush()
	rapid.Check(t, func(rt *rapid.T) {
		metas := vC20GenMetas(rt)
		enc := metas[0]
		rel := rapid.IntRange(0, 4).Draw(rt, "decodeUnder")
		dec := metas[rel]
		spec := vC20GenPunchSpec(rt, true)
		pkt, dmg, berr := vC20BuildPunch(spec, enc, rapid.Uint64().Draw(rt, "fill"))
		if berr != nil {
			rt.Fatalf("C20: EncodePunchPacket(type %#02x) failed under valid metadata %v: %v", spec.typ, enc, berr)
		}
		validType := spec.typ == vC20Hello || spec.typ == vC20Ack
		same := enc.same(dec)
		classes := []string{"under:" + vC20MetaNames[rel], "damage:" + dmg}
		if spec.impl {
			classes = append(classes, "encoder:impl")
		} else {
			classes = append(classes, "encoder:harness")
		}
		if !validType {
			classes = append(classes, "type:invalid")
		}
		nearMiss := (same && validType && dmg != "intact" && dmg != "flip-padding" && dmg != "truncated-in-padding") ||
			(!same && rel != 4 && validType && (dmg == "intact" || dmg == "flip-padding")) ||
			(same && !validType && dmg == "intact")
		render := func() string {
			return fmt.Sprintf("encode{%v} under %v, decode under %s %v -> %s wire=%s", spec, enc, vC20MetaNames[rel], dec, dmg, vC20Hex(pkt))
		}
		st.Case(nearMiss, fmt.Sprintf("%d/%v/%s/%d/%d", rel, spec.typ, dmg, len(pkt), spec.arg&7), classes, render)

		ok, err := vC20CheckDecode(pkt, dec)
		if err != nil {
			rt.Fatalf("C20: %v\ncase: %s", err, render())
		}
		// expectations by construction (they also guard the reference decoder)
		var want, known bool
		switch {
		case !validType && dmg == "flip-type":
			// 0x00/0x03 are one bit away from a valid type: the reference decoder decides
		case !same && rel == 1 && dmg == "flip-nonce":
			// the flip may repair exactly the nibble in which the nonces differ: reference decides
		case !validType, !same:
			want, known = false, true
		case dmg == "intact", dmg == "flip-padding", dmg == "truncated-in-padding":
			want, known = true, true
		case dmg == "flip-salt", dmg == "flip-magic", dmg == "flip-type", dmg == "flip-nonce", dmg == "truncated-header", dmg == "extended-beyond-max":
			want, known = false, true
		}
		if known && ok != want {
			rt.Fatalf("C20: packet decodes=%v, expected %v by construction\ncase: %s", ok, want, render())
		}
		if !spec.impl && ok && dmg == "intact" {
			got, _ := DecodePunchPacket(pkt, dec.pm())
			if byte(got.Type) != spec.typ || got.PaddingLength != spec.pad {
				rt.Fatalf("C20: decoded {type %#02x padding %d}, encoded {type %#02x padding %d}\ncase: %s", byte(got.Type), got.PaddingLength, spec.typ, spec.pad, render())
			}
		}
	})
}

// TestVerifC20_CodecExhaustive: every padding length 0..1024 (and 1025..1040,
// which must be refused) for both types through the harness encoder; the
// implementation's encoder sampled until its paddings are widely spread; every
// single-bit flip of a short and a long packet, classed by region.
func TestVerifC20_CodecExhaustive(t *testing.T) {
	st := newVStats("TestVerifC20_CodecExhaustive")
	defer st.Flush()
	var m, other vC20Meta
	copy(m.nonce[:], vC20Fill(20, 16))
	copy(m.key[:], vC20Fill(21, 32))
	other = m
	other.nonce[15] ^= 0x01
	for _, typ := range []byte{vC20Hello, vC20Ack} {
		for pad := 0; pad <= vC20MaxPad+16; pad++ {
			r := vC20Fill(uint64(pad)*3+uint64(typ), vC20SaltLen+pad)
			pkt := vC20Encode(typ, m, r[:8], r[8:])
			st.Case(true, fmt.Sprintf("pad/%d/%d", typ, pad), []string{"every-padding"}, func() string { return fmt.Sprintf("type=%d pad=%d", typ, pad) })
			got, err := DecodePunchPacket(pkt, m.pm())
			if pad <= vC20MaxPad {
				if err != nil || byte(got.Type) != typ || got.PaddingLength != pad {
					t.Fatalf("C20: harness-encoded packet type=%#02x padding=%d does not decode under its metadata: %+v %v (wire %s)", typ, pad, got, err, vC20Hex(pkt))
				}
			} else if err == nil {
				t.Fatalf("C20: %d-byte packet (padding %d > %d) decodes as a punch packet: %+v", len(pkt), pad, vC20MaxPad, got)
			}
			if _, err := DecodePunchPacket(pkt, other.pm()); err == nil {
				t.Fatalf("C20: packet type=%#02x padding=%d decodes under metadata differing in one nonce bit", typ, pad)
			}
		}
	}
	// every value of the type byte
	for typ := 0; typ < 256; typ++ {
		for _, pad := range []int{0, 5, 1024} {
			r := vC20Fill(uint64(typ)*7+uint64(pad), vC20SaltLen+pad)
			pkt := vC20Encode(byte(typ), m, r[:8], r[8:])
			valid := typ == vC20Hello || typ == vC20Ack
			st.Case(!valid, fmt.Sprintf("type/%d/%d", typ, pad), []string{"every-type"}, func() string { return fmt.Sprintf("type=%#02x pad=%d", typ, pad) })
			got, err := DecodePunchPacket(pkt, m.pm())
			if valid != (err == nil) || (valid && (int(got.Type) != typ || got.PaddingLength != pad)) {
				t.Fatalf("C20: packet with type byte %#02x padding %d under its own metadata: decoded %+v err=%v (only 0x01 and 0x02 are punch packet types)", typ, pad, got, err)
			}
		}
	}
	// the implementation's encoder -> harness decoder
	seen := map[int]bool{}
	for i := 0; i < 6000; i++ {
		typ := byte(vC20Hello + i%2)
		pkt, err := EncodePunchPacket(PunchPacketType(typ), m.pm())
		if err != nil {
			t.Fatalf("C20: EncodePunchPacket: %v", err)
		}
		gt, gp, ok := vC20Decode(pkt, m)
		if !ok || gt != typ || gp != len(pkt)-vC20MinWire {
			t.Fatalf("C20: EncodePunchPacket(type %#02x) output is not a punch packet under its metadata for the reference decoder (ok=%v type=%#02x pad=%d): %s", typ, ok, gt, gp, vC20Hex(pkt))
		}
		if _, _, ok := vC20Decode(pkt, other); ok {
			t.Fatalf("C20: EncodePunchPacket output decodes under other metadata")
		}
		seen[gp] = true
		st.Case(true, fmt.Sprintf("impl/%d/%d", typ, gp), []string{"impl-encoder"}, nil)
	}
	st.Extra("impl_encoder_distinct_paddings", len(seen))
	// every single-bit flip
	for _, pad := range []int{3, 1024} {
		r := vC20Fill(uint64(pad), vC20SaltLen+pad)
		base := vC20Encode(vC20Ack, m, r[:8], r[8:])
		for bit := 0; bit < 8*len(base); bit++ {
			pkt := append([]byte(nil), base...)
			pkt[bit/8] ^= 1 << (bit % 8)
			region := vC20Region(bit / 8)
			st.Case(region != "padding", fmt.Sprintf("flip/%d/%d", pad, bit), []string{"bitflip:" + region}, func() string { return fmt.Sprintf("pad=%d bit=%d region=%s", pad, bit, region) })
			ok, err := vC20CheckDecode(pkt, m)
			if err != nil {
				t.Fatalf("C20: %v", err)
			}
			if ok != (region == "padding") {
				t.Fatalf("C20: bit %d (%s) flipped in a %d-byte packet: decodes=%v", bit, region, len(base), ok)
			}
		}
	}
}
