package realm

// C20, several writers: "…and stops being diverted once its attempt is removed",
// quantified over "every set of registered attempts changing over time, and
// concurrent registration/removal".
//
// In production several punch attempts start and finish at once
// (ServerPuncher.Respond: one goroutine per connecting client, Add/Remove
// outside its own mutex). Here 2–4 writer goroutines add/remove their OWN ids
// concurrently on one PunchPacketConn, on top of a table of long-lived
// attempts. Because the id sets are disjoint, the registry after all writers
// have returned is determined (last op per id), whatever the interleaving was.
// After that quiescent point every touched id gets definite packets: a packet
// of an id whose last op was Remove (returned) must reach QUIC, one under the
// metadata of the last Add must be diverted, one under metadata replaced by a
// later Add must reach QUIC.

import (
	"errors"
	"fmt"
	"runtime"
	"strings"
	"sync"
	"testing"

	"pgregory.net/rapid"
)

type vC20WOp struct {
	add   bool
	k     int // which of the writer's own ids
	v     int // metadata variant (add)
	yield bool
}

func (o vC20WOp) String() string {
	if o.add {
		return fmt.Sprintf("add(%d,v%d)", o.k, o.v)
	}
	return fmt.Sprintf("rm(%d)", o.k)
}

// metadata of (owner, k, variant): all pairwise different
func vC20WMeta(seed uint64, owner, k, v int) vC20Meta {
	var m vC20Meta
	x := seed + uint64(owner+1)*1000003 + uint64(k+1)*10007 + uint64(v+1)*101
	copy(m.nonce[:], vC20Fill(x, 16))
	copy(m.key[:], vC20Fill(x^0xABCDEF, 32))
	return m
}

func TestVerifC20_Writers(t *testing.T) {
	st := newVStats("TestVerifC20_Writers")
	defer st.Flush()
	var roundsRun, removedChecked int64
	rapid.Check(t, func(rt *rapid.T) {
		seed := rapid.Uint64().Draw(rt, "metaSeed")
		nLong := rapid.SampledFrom([]int{0, 8, 32, 64, 128}).Draw(rt, "longLived")
		nW := rapid.IntRange(2, 4).Draw(rt, "writers")
		idsPer := rapid.IntRange(1, 4).Draw(rt, "idsPerWriter")
		rounds := rapid.IntRange(1, 10).Draw(rt, "rounds")
		plan := make([][][]vC20WOp, rounds)
		for r := range plan {
			plan[r] = make([][]vC20WOp, nW)
			for g := range plan[r] {
				n := rapid.IntRange(1, 10).Draw(rt, "nops")
				for i := 0; i < n; i++ {
					plan[r][g] = append(plan[r][g], vC20WOp{
						add:   rapid.IntRange(0, 9).Draw(rt, "add") < 5,
						k:     rapid.IntRange(0, idsPer-1).Draw(rt, "k"),
						v:     rapid.IntRange(0, 1).Draw(rt, "v"),
						yield: rapid.IntRange(0, 7).Draw(rt, "yield") == 0,
					})
				}
			}
		}

		fake := vC20NewFake(false)
		pc, err := NewPunchPacketConn(fake, 256)
		if err != nil {
			rt.Fatalf("C20: NewPunchPacketConn: %v", err)
		}
		reg := vC20Reg{}
		for i := 0; i < nLong; i++ {
			id, m := fmt.Sprintf("L%d", i), vC20WMeta(seed, 99, i, 0)
			if err := pc.AddPunchAttempt(id, m.pm()); err != nil {
				rt.Fatalf("C20: AddPunchAttempt: %v", err)
			}
			reg[id] = m
		}
		wid := func(g, k int) string { return fmt.Sprintf("w%d-%d", g, k) }
		// precomputed so the writers spend their time inside Add/Remove
		pms := map[string]PunchMetadata{}
		for g := 0; g < nW; g++ {
			for k := 0; k < idsPer; k++ {
				for v := 0; v < 2; v++ {
					pms[fmt.Sprintf("%d/%d/%d", g, k, v)] = vC20WMeta(seed, g, k, v).pm()
				}
			}
		}
		buf := make([]byte, 2048)
		seq := 0
		nearCase := false
		var kinds []string
		for r := 0; r < rounds; r++ {
			before := reg.clone()
			start := make(chan struct{})
			var wg sync.WaitGroup
			errs := make([]error, nW)
			for g := 0; g < nW; g++ {
				wg.Add(1)
				go func(g int) {
					defer wg.Done()
					ops := plan[r][g]
					<-start
					for _, o := range ops {
						if o.yield {
							runtime.Gosched()
						}
						if o.add {
							if e := pc.AddPunchAttempt(wid(g, o.k), pms[fmt.Sprintf("%d/%d/%d", g, o.k, o.v)]); e != nil && errs[g] == nil {
								errs[g] = e
							}
						} else {
							pc.RemovePunchAttempt(wid(g, o.k))
						}
					}
				}(g)
			}
			close(start)
			wg.Wait() // quiescent point: every Add/Remove of the round has returned
			roundsRun++
			touched := map[string][2]int{}
			for g := 0; g < nW; g++ {
				if errs[g] != nil {
					rt.Fatalf("C20: AddPunchAttempt with valid metadata failed: %v", errs[g])
				}
				for _, o := range plan[r][g] {
					id := wid(g, o.k)
					touched[id] = [2]int{g, o.k}
					if o.add {
						reg[id] = vC20WMeta(seed, g, o.k, o.v)
					} else {
						delete(reg, id)
					}
				}
			}
			render := func() string {
				var sb strings.Builder
				fmt.Fprintf(&sb, "long-lived=%d writers=%d round %d of %d; registered writer ids before the round:", nLong, nW, r+1, rounds)
				for id := range before {
					if !strings.HasPrefix(id, "L") {
						sb.WriteString(" " + id)
					}
				}
				for g := 0; g < nW; g++ {
					fmt.Fprintf(&sb, "\n  writer %d (ids w%d-*): %v", g, g, plan[r][g])
				}
				sb.WriteString("\n  registered writer ids after all writers returned (model):")
				for id := range reg {
					if !strings.HasPrefix(id, "L") {
						sb.WriteString(" " + id)
					}
				}
				return sb.String()
			}
			// definite packets
			var exps []vC20Exp
			push := func(m vC20Meta, kind string) {
				rb := vC20Fill(seed+uint64(seq), vC20SaltLen+seq%9)
				pkt := vC20Pkt{b: vC20Encode(byte(vC20Hello+seq%2), m, rb[:8], rb[8:]), kind: kind, from: vC20From(seq, seq)}
				seq++
				fake.push(pkt)
				exps = append(exps, vC20Classify(len(exps), pkt, []vC20Reg{reg}))
			}
			for g := 0; g < nW; g++ {
				for k := 0; k < idsPer; k++ {
					id := wid(g, k)
					if _, ok := touched[id]; !ok {
						continue
					}
					for v := 0; v < 2; v++ {
						m := vC20WMeta(seed, g, k, v)
						cur, isReg := reg[id]
						switch {
						case isReg && cur.same(m):
							push(m, "punch("+id+",registered)")
						case isReg:
							push(m, "punch("+id+",replaced-metadata)")
							nearCase = true
						default:
							push(m, "punch("+id+",removed)")
							if _, was := before[id]; was {
								nearCase = true
							}
							removedChecked++
						}
					}
				}
			}
			if nLong > 0 {
				push(vC20WMeta(seed, 99, r%nLong, 0), "punch(long-lived)")
			}
			push(vC20WMeta(seed, 77, r, 0), "punch(never-registered)")
			var rets []vC20Ret
			for {
				n, addr, rerr := pc.ReadFrom(buf)
				if rerr != nil {
					if !errors.Is(rerr, vC20ErrEmpty) {
						rt.Fatalf("C20: ReadFrom: %v", rerr)
					}
					break
				}
				rets = append(rets, vC20Ret{b: append([]byte(nil), buf[:n]...), addr: addr})
				if len(rets) > len(exps) {
					break
				}
			}
			returned, jerr := vC20JudgeReturned(exps, rets)
			if jerr == nil {
				jerr = vC20JudgeEvents(exps, returned, vC20DrainPunch(pc), vC20DrainSTUN(pc))
			}
			if jerr != nil {
				rt.Fatalf("C20: after concurrent add/remove by %d writers on disjoint ids: %v\n%s", nW, jerr, render())
			}
			kinds = append(kinds, fmt.Sprintf("%d", len(touched)))
		}
		st.Case(nearCase, fmt.Sprintf("L%d/W%d/%s/%x", nLong, nW, strings.Join(kinds, ","), seed&0xffff),
			[]string{fmt.Sprintf("writers:%d", nW), fmt.Sprintf("long-lived:%d", nLong)},
			func() string {
				return fmt.Sprintf("long-lived=%d writers=%d ids/writer=%d rounds=%d last round: %v", nLong, nW, idsPer, rounds, plan[rounds-1])
			})
	})
	st.Extra("writer_rounds", roundsRun)
	st.Extra("removed_id_packets_checked", removedChecked)
}
