package realm

// C20, production wiring: one socket under NewPunchPacketConn, ONE reader
// pumping ReadFrom (QUIC's role), and DiscoverWithDemux running on the same
// PunchPacketConn against scripted STUN servers that answer promptly, late or
// never, while ordinary traffic and punch packets keep arriving.
//
// Oracle (the statement's): every received packet that is neither a STUN
// binding response nor a punch packet of a registered attempt reaches QUIC —
// i.e. is returned by the reader's ReadFrom — byte-identical, with its source,
// exactly once, in order. Consequently nobody but PunchPacketConn.ReadFrom may
// take datagrams from the inner socket (the fake inspects its caller), and
// discovery must not put read deadlines on the socket QUIC is reading (the
// fake records them; the unchanged DiscoverWithDemux sets none). STUN
// responses are withheld and reach discovery: its result is exactly the set of
// mapped addresses answered before it finished.
//
// Runs in a synctest bubble: stun.go only uses context deadlines, so the
// virtual clock decides "late".

import (
	"context"
	"encoding/binary"
	"fmt"
	"net"
	"net/netip"
	"runtime"
	"sort"
	"strings"
	"sync"
	"testing"
	"testing/synctest"
	"time"

	"github.com/pion/stun/v3"
	"pgregory.net/rapid"
)

type vC20SockWrite struct {
	b  []byte
	to net.Addr
}

// vC20Sock: scripted inner socket. ReadFrom blocks on a channel; every call
// records whether it came through (*PunchPacketConn).ReadFrom.
type vC20Sock struct {
	ch chan vC20Pkt

	mu            sync.Mutex
	writes        []vC20SockWrite
	foreignReads  []string // callers of ReadFrom that are not PunchPacketConn.ReadFrom
	deadlineCalls []string
	reads         int
}

func vC20NewSock() *vC20Sock { return &vC20Sock{ch: make(chan vC20Pkt)} }

func (f *vC20Sock) ReadFrom(p []byte) (int, net.Addr, error) {
	pcs := make([]uintptr, 24)
	n := runtime.Callers(2, pcs)
	frames := runtime.CallersFrames(pcs[:n])
	viaDemux := false
	var chain []string
	for {
		fr, more := frames.Next()
		if strings.HasSuffix(fr.Function, "(*PunchPacketConn).ReadFrom") {
			viaDemux = true
		}
		if len(chain) < 4 && fr.Function != "" {
			chain = append(chain, fr.Function[strings.LastIndex(fr.Function, "/")+1:])
		}
		if !more {
			break
		}
	}
	f.mu.Lock()
	f.reads++
	if !viaDemux {
		f.foreignReads = append(f.foreignReads, strings.Join(chain, " <- "))
	}
	f.mu.Unlock()
	pk, ok := <-f.ch
	if !ok {
		return 0, nil, net.ErrClosed
	}
	return copy(p, pk.b), pk.from, nil
}

func (f *vC20Sock) WriteTo(p []byte, addr net.Addr) (int, error) {
	f.mu.Lock()
	f.writes = append(f.writes, vC20SockWrite{b: append([]byte(nil), p...), to: addr})
	f.mu.Unlock()
	return len(p), nil
}
func (f *vC20Sock) Close() error        { return nil }
func (f *vC20Sock) LocalAddr() net.Addr { return &net.UDPAddr{IP: net.IPv4zero, Port: 4433} }
func (f *vC20Sock) noteDeadline(kind string, t time.Time) {
	f.mu.Lock()
	f.deadlineCalls = append(f.deadlineCalls, fmt.Sprintf("%s(zero=%v)", kind, t.IsZero()))
	f.mu.Unlock()
}
func (f *vC20Sock) SetDeadline(t time.Time) error { f.noteDeadline("SetDeadline", t); return nil }
func (f *vC20Sock) SetReadDeadline(t time.Time) error {
	f.noteDeadline("SetReadDeadline", t)
	return nil
}
func (f *vC20Sock) SetWriteDeadline(t time.Time) error { return nil }

type vC20Resolver struct{}

func (vC20Resolver) LookupIPAddr(ctx context.Context, host string) ([]net.IPAddr, error) {
	ip := net.ParseIP(host)
	if ip == nil {
		return nil, fmt.Errorf("verif resolver: %q is not an IP", host)
	}
	return []net.IPAddr{{IP: ip}}, nil
}

var vC20StunServers = []string{"192.0.2.53:3478", "192.0.2.54:3479", "[2001:db8::53]:3478"}

type vC20DiscOp struct {
	kind    string // discover, answer, sleep, inject, ctl, cancel
	timeout time.Duration
	servers int
	server  int
	v6      bool
	mport   int
	sleep   time.Duration
	pkt     vC20PktSpec
	ctl     vC20Op
}

func (o vC20DiscOp) String() string {
	switch o.kind {
	case "discover":
		return fmt.Sprintf("discover(servers=%d,timeout=%v)", o.servers, o.timeout)
	case "answer":
		return fmt.Sprintf("answer(server %d,mapped port %d,v6=%v)", o.server, o.mport, o.v6)
	case "sleep":
		return fmt.Sprintf("sleep(%v)", o.sleep)
	case "inject":
		return "inject[" + o.pkt.String() + "]"
	case "ctl":
		return o.ctl.String()
	}
	return o.kind
}

type vC20DiscResult struct {
	addrs []netip.AddrPort
	err   error
}

func TestVerifC20_DiscoverSharesSocket(t *testing.T) {
	st := newVStats("TestVerifC20_DiscoverSharesSocket")
	defer st.Flush()
	rapid.Check(t, func(rt *rapid.T) {
		metas := vC20GenMetas(rt)
		nops := rapid.IntRange(2, 22).Draw(rt, "nops")
		var ops []vC20DiscOp
		seq := 0
		for i := 0; i < nops; i++ {
			switch c := rapid.IntRange(0, 11).Draw(rt, "op"); {
			case c <= 1 || i == 0:
				ops = append(ops, vC20DiscOp{kind: "discover", servers: rapid.IntRange(1, 3).Draw(rt, "servers"),
					timeout: vC20SrvTimeout(rapid.SampledFrom([]int{0, 400, 2000}).Draw(rt, "timeoutMs"))})
			case c <= 3:
				ops = append(ops, vC20DiscOp{kind: "answer", server: rapid.IntRange(0, 2).Draw(rt, "server"), v6: rapid.Bool().Draw(rt, "v6"),
					mport: rapid.IntRange(1, 65535).Draw(rt, "mport")})
			case c <= 5:
				ops = append(ops, vC20DiscOp{kind: "sleep", sleep: time.Duration(rapid.SampledFrom([]int{20, 120, 300, 600, 1500, 5000}).Draw(rt, "sleepMs"))*time.Millisecond + time.Microsecond})
			case c == 6:
				ops = append(ops, vC20DiscOp{kind: "ctl", ctl: vC20GenCtl(rt)})
			case c == 7 && rapid.IntRange(0, 3).Draw(rt, "cancel") == 0:
				ops = append(ops, vC20DiscOp{kind: "cancel"})
			default:
				ops = append(ops, vC20DiscOp{kind: "inject", pkt: vC20GenPktSpec(rt, seq, 1, 2048)})
				seq++
			}
		}
		var failure string
		var trace []string
		near := false
		lateOrNever := false
		synctest.Test(t, func(t *testing.T) {
			fail := func(format string, a ...any) {
				if failure == "" {
					failure = fmt.Sprintf(format, a...) + "\nhistory: " + strings.Join(trace, " ; ")
				}
			}
			sock := vC20NewSock()
			pc, err := NewPunchPacketConn(sock, 16)
			if err != nil {
				fail("NewPunchPacketConn: %v", err)
				return
			}
			var retMu sync.Mutex
			var rets []vC20Ret
			var readerErr error
			readerDone := make(chan struct{})
			go func() { // QUIC's role
				defer close(readerDone)
				buf := make([]byte, 2048)
				for {
					n, addr, rerr := pc.ReadFrom(buf)
					if rerr != nil {
						retMu.Lock()
						readerErr = rerr
						retMu.Unlock()
						return
					}
					retMu.Lock()
					rets = append(rets, vC20Ret{b: append([]byte(nil), buf[:n]...), addr: addr})
					retMu.Unlock()
				}
			}()
			synctest.Wait()

			reg := vC20Reg{}
			var history []vC20Pkt
			seq := 0
			// discovery state
			type disc struct {
				done     chan vC20DiscResult
				cancel   context.CancelFunc
				deadline time.Time
				txid     map[int][12]byte // server -> transaction id of its request
				dest     map[int]*net.UDPAddr
				answered map[int]netip.AddrPort
				n        int
			}
			var cur *disc
			// inject one packet, wait for quiescence, judge it
			inject := func(pkt vC20Pkt) {
				e := vC20Classify(0, pkt, []vC20Reg{reg})
				retMu.Lock()
				rets = nil
				retMu.Unlock()
				select {
				case sock.ch <- pkt:
				case <-readerDone:
					fail("the reader's ReadFrom failed with %v although the socket is open", readerErr)
					return
				}
				synctest.Wait()
				retMu.Lock()
				got := rets
				retMu.Unlock()
				returned, jerr := vC20JudgeReturned([]vC20Exp{e}, got)
				if jerr != nil {
					fail("%v", jerr)
					return
				}
				for _, ev := range vC20DrainPunch(pc) {
					if returned[0] {
						fail("packet both returned and reported as punch event: %v", e)
					} else if merr := vC20MatchPunch(ev, e); merr != nil {
						fail("%v", merr)
					}
				}
				if e.label != "punch-registered" && e.stun.verdict != vC20MustDivert {
					near = near || e.stun.label != "not-stun" || strings.HasPrefix(pkt.kind, "punch(")
				}
			}
			// after every op: the inner socket may only have been read by the demux, no deadlines
			checkSocket := func() {
				sock.mu.Lock()
				defer sock.mu.Unlock()
				if len(sock.foreignReads) > 0 {
					fail("the inner socket was read by someone other than PunchPacketConn.ReadFrom (packets taken there never reach QUIC): %v", sock.foreignReads)
				}
				if len(sock.deadlineCalls) > 0 {
					fail("a read deadline was set on the socket QUIC is reading: %v", sock.deadlineCalls)
				}
			}
			// has the running discovery finished, and with the right result?
			checkDiscovery := func() {
				if cur == nil {
					// nobody consumes STUN events now: keep the buffer from filling up
					vC20DrainSTUN(pc)
					return
				}
				shouldFinish := len(cur.answered) == cur.n || time.Now().After(cur.deadline)
				select {
				case r := <-cur.done:
					if !shouldFinish {
						fail("DiscoverWithDemux returned (%v, %v) before all %d servers answered (%d) and before its deadline", r.addrs, r.err, cur.n, len(cur.answered))
					}
					want := map[netip.AddrPort]bool{}
					for _, ap := range cur.answered {
						want[ap] = true
					}
					var wl []string
					for ap := range want {
						wl = append(wl, ap.String())
					}
					sort.Strings(wl)
					var gl []string
					for _, ap := range r.addrs {
						gl = append(gl, netip.AddrPortFrom(ap.Addr().Unmap(), ap.Port()).String())
					}
					sort.Strings(gl)
					if len(want) == 0 {
						if r.err == nil {
							fail("DiscoverWithDemux returned %v without any STUN response having arrived", r.addrs)
						}
					} else if r.err != nil || strings.Join(gl, ",") != strings.Join(wl, ",") {
						fail("DiscoverWithDemux = (%v, %v); the STUN binding responses withheld for it carried %v", r.addrs, r.err, wl)
					}
					cur.cancel()
					cur = nil
				default:
					if shouldFinish {
						fail("DiscoverWithDemux still running although %d of %d servers answered and deadline passed=%v (withheld STUN responses must reach it)", len(cur.answered), cur.n, time.Now().After(cur.deadline))
					}
				}
			}

			for _, op := range ops {
				if failure != "" {
					break
				}
				trace = append(trace, op.String())
				switch op.kind {
				case "discover":
					if cur != nil {
						trace[len(trace)-1] += "(skipped: running)"
						continue
					}
					sock.mu.Lock()
					w0 := len(sock.writes)
					sock.mu.Unlock()
					dctx, cancel := context.WithCancel(context.Background())
					d := &disc{done: make(chan vC20DiscResult, 1), cancel: cancel, n: op.servers,
						txid: map[int][12]byte{}, dest: map[int]*net.UDPAddr{}, answered: map[int]netip.AddrPort{}}
					eff := op.timeout
					if eff == 0 {
						eff = 4 * time.Second
					}
					d.deadline = time.Now().Add(eff)
					cfg := STUNConfig{Servers: vC20StunServers[:op.servers], Timeout: op.timeout, Resolver: vC20Resolver{}}
					go func() {
						a, e := DiscoverWithDemux(dctx, pc, cfg)
						d.done <- vC20DiscResult{a, e}
					}()
					synctest.Wait()
					sock.mu.Lock()
					ws := sock.writes[w0:]
					sock.mu.Unlock()
					for _, w := range ws {
						ua, ok := w.to.(*net.UDPAddr)
						if !ok || len(w.b) < 20 || binary.BigEndian.Uint16(w.b[0:2]) != 0x0001 || binary.BigEndian.Uint32(w.b[4:8]) != vC20Cookie {
							continue
						}
						for k, srv := range vC20StunServers[:op.servers] {
							if ap := netip.MustParseAddrPort(srv); ap.Port() == uint16(ua.Port) && ua.IP.Equal(net.IP(ap.Addr().AsSlice())) {
								var id [12]byte
								copy(id[:], w.b[8:20])
								d.txid[k], d.dest[k] = id, ua
							}
						}
					}
					if len(d.txid) != op.servers {
						select {
						case r := <-d.done:
							fail("DiscoverWithDemux returned (%v, %v) right away", r.addrs, r.err)
						default:
							fail("DiscoverWithDemux sent %d binding requests for %d servers", len(d.txid), op.servers)
						}
						cancel()
						continue
					}
					cur = d
				case "answer":
					if cur == nil || op.server >= cur.n {
						trace[len(trace)-1] += "(skipped)"
						continue
					}
					ap := netip.AddrPortFrom(netip.AddrFrom4([4]byte{203, 0, 113, byte(1 + op.server)}), uint16(op.mport))
					if op.v6 {
						ap = netip.AddrPortFrom(netip.MustParseAddr("2001:db8:1::9"), uint16(op.mport))
					}
					b := vC20PionSTUN(cur.txid[op.server], stun.BindingSuccess, &stun.XORMappedAddress{IP: net.IP(ap.Addr().AsSlice()), Port: int(ap.Port())})
					from := cur.dest[op.server]
					pkt := vC20Pkt{b: b, kind: "stun-server-response", from: &net.UDPAddr{IP: from.IP, Port: from.Port}}
					history = append(history, pkt)
					// byPort in the judge keys on the source port: server ports are > 3000, injected packets use 1..22
					if _, dup := cur.answered[op.server]; !dup {
						cur.answered[op.server] = ap
					}
					if len(cur.answered) < cur.n || time.Now().After(cur.deadline) {
						lateOrNever = true
					}
					inject(pkt)
				case "sleep":
					time.Sleep(op.sleep)
					synctest.Wait()
					if cur != nil && len(cur.answered) < cur.n {
						lateOrNever = true
					}
				case "ctl":
					var cerr error
					reg, cerr = vC20ApplyCtl(pc, reg, op.ctl, metas)
					if cerr != nil {
						fail("%v", cerr)
					}
				case "cancel":
					if cur != nil {
						cur.cancel()
						synctest.Wait()
						select {
						case <-cur.done:
						default:
							fail("DiscoverWithDemux did not return after its context was cancelled")
						}
						cur = nil
					}
				case "inject":
					pkt, berr := vC20Materialize(op.pkt, seq, metas, history)
					if berr != nil {
						fail("EncodePunchPacket: %v", berr)
						continue
					}
					seq++
					if strings.HasPrefix(pkt.kind, "replay:stun-server-response") {
						pkt.kind = "replayed server response"
					}
					history = append(history, pkt)
					inject(pkt)
				}
				checkSocket()
				checkDiscovery()
			}
			if cur != nil {
				cur.cancel()
			}
			close(sock.ch)
			synctest.Wait()
			select {
			case <-readerDone:
			default:
				fail("reader did not return after the socket was closed")
			}
		})
		kinds := []string{}
		for _, op := range ops {
			kinds = append(kinds, op.kind)
		}
		classes := []string{}
		if lateOrNever {
			classes = append(classes, "stun-server-late-or-silent")
		}
		st.Case(near || lateOrNever, strings.Join(kinds, ","), classes, func() string { return strings.Join(trace, " ; ") })
		if failure != "" {
			rt.Fatalf("C20: %s", failure)
		}
	})
}
