package quic

// C03 — peer-controlled bytes never crash the process (QUIC Initial sniffing).
//
// Entry point: ReadCryptoPayload(datagram) — reached from Sniffer.UDP with the
// payload of the first UDP message of a session (a slice of a QUIC datagram with
// cap == len; up to a reassembled 64 KiB in principle). ParseInitialHeader,
// PacketProtector.UnProtect, extractCryptoFrames and assembleCryptoFrames are
// only driven through it, with the arguments it passes.
//
// Oracle: no panic; it returns data or an error; afterwards the repo's own
// RFC 9001 client Initial is still decoded (service continues).

import (
	"bytes"
	"encoding/hex"
	"fmt"
	"strings"
	"testing"

	"pgregory.net/rapid"
)

// RFC 9001 Appendix A.2 client Initial (protected), the CRYPTO data it carries starts 010000ed0303ebf8…
const v03RFC9001ClientInitial = `
c000000001088394c8f03e5157080000 449e7b9aec34d1b1c98dd7689fb8ec11
d242b123dc9bd8bab936b47d92ec356c 0bab7df5976d27cd449f63300099f399
1c260ec4c60d17b31f8429157bb35a12 82a643a8d2262cad67500cadb8e7378c
8eb7539ec4d4905fed1bee1fc8aafba1 7c750e2c7ace01e6005f80fcb7df6212
30c83711b39343fa028cea7f7fb5ff89 eac2308249a02252155e2347b63d58c5
457afd84d05dfffdb20392844ae81215 4682e9cf012f9021a6f0be17ddd0c208
4dce25ff9b06cde535d0f920a2db1bf3 62c23e596d11a4f5a6cf3948838a3aec
4e15daf8500a6ef69ec4e3feb6b1d98e 610ac8b7ec3faf6ad760b7bad1db4ba3
485e8a94dc250ae3fdb41ed15fb6a8e5 eba0fc3dd60bc8e30c5c4287e53805db
059ae0648db2f64264ed5e39be2e20d8 2df566da8dd5998ccabdae053060ae6c
7b4378e846d29f37ed7b4ea9ec5d82e7 961b7f25a9323851f681d582363aa5f8
9937f5a67258bf63ad6f1a0b1d96dbd4 faddfcefc5266ba6611722395c906556
be52afe3f565636ad1b17d508b73d874 3eeb524be22b3dcbc2c7468d54119c74
68449a13d8e3b95811a198f3491de3e7 fe942b330407abf82a4ed7c1b311663a
c69890f4157015853d91e923037c227a 33cdd5ec281ca3f79c44546b9d90ca00
f064c99e3dd97911d39fe9c5d0b23a22 9a234cb36186c4819e8b9c5927726632
291d6a418211cc2962e20fe47feb3edf 330f2c603a9d48c0fcb5699dbfe58964
25c5bac4aee82e57a85aaf4e2513e4f0 5796b07ba2ee47d80506f8d2c25e50fd
14de71e6c418559302f939b0e1abd576 f279c4b2e0feb85c1f28ff18f58891ff
ef132eef2fa09346aee33c28eb130ff2 8f5b766953334113211996d20011a198
e3fc433f9f2541010ae17c1bf202580f 6047472fb36857fe843b19f5984009dd
c324044e847a4f4a0ab34f719595de37 252d6235365e9b84392b061085349d73
203a4a13e96f5432ec0fd4a1ee65accd d5e3904df54c1da510b0ff20dcc0c77f
cb2c0e0eb605cb0504db87632cf3d8b4 dae6e705769d1de354270123cb11450e
fc60ac47683d7b8d0f811365565fd98c 4c8eb936bcab8d069fc33bd801b03ade
a2e1fbc5aa463d08ca19896d2bf59a07 1b851e6c239052172f296bfb5e724047
90a2181014f3b94a4e97d117b4381303 68cc39dbb2d198065ae3986547926cd2
162f40a29f0c3c8745c0f50fba3852e5 66d44575c29d39a03f0cda721984b6f4
40591f355e12d439ff150aab7613499d bd49adabc8676eef023b15b65bfc5ca0
6948109f23f350db82123535eb8a7433 bdabcb909271a6ecbcb58b936a88cd4e
8f2e6ff5800175f113253d8fa9ca8885 c2f552e657dc603f252e1a8e308f76f0
be79e2fb8f5d5fbbe2e30ecadd220723 c8c0aea8078cdfcb3868263ff8f09400
54da48781893a7e49ad5aff4af300cd8 04a6b6279ab3ff3afb64491c85194aab
760d58a606654f9f4400e8b38591356f bf6425aca26dc85244259ff2b19c41b9
f96f3ca9ec1dde434da7d2d392b905dd f3d1f9af93d1af5950bd493f5aa731b4
056df31bd267b6b90a079831aaf579be 0a39013137aac6d404f518cfd4684064
7e78bfe706ca4cf5e9c5453e9f7cfd2b 8b4c8d169a44e55c88d4a9a7f9474241
e221af44860018ab0856972e194cd934
`

func v03Unhex(s string) []byte {
	b, err := hex.DecodeString(strings.Join(strings.Fields(s), ""))
	if err != nil {
		panic(err)
	}
	return b
}

func v03ErrClass(err error) string {
	if err == nil {
		return "ok"
	}
	s := err.Error()
	for _, k := range []string{"unsupported version", "packet is too short", "packet is too small", "decryption failed", "unexpected frame type",
		"unable to assemble", "invalid packet", "not a QUIC packet", "crypto frame data too large", "invalid crypto frame offset", "unexpected EOF", "EOF"} {
		if strings.Contains(s, k) {
			return "err:" + k
		}
	}
	if len(s) > 30 {
		s = s[:30]
	}
	return "err:" + s
}

func v03Probe() error {
	data, err := ReadCryptoPayload(v03Tight(v03Unhex(v03RFC9001ClientInitial)))
	if err != nil || len(data) < 6 || !bytes.Equal(data[:6], []byte{0x01, 0x00, 0x00, 0xed, 0x03, 0x03}) {
		return fmt.Errorf("the RFC 9001 A.2 client Initial is no longer decoded: %d bytes, err=%v", len(data), err)
	}
	return nil
}

// v03RunPacket: one datagram through ReadCryptoPayload, then the probe.
func v03RunPacket(pkt []byte) (string, error) {
	in := v03Tight(pkt)
	var cls string
	pv, stack := v03Guard(func() {
		data, err := ReadCryptoPayload(in)
		cls = v03ErrClass(err)
		if err == nil {
			if data == nil {
				cls = "nil-nil"
			} else if len(data) > 0 {
				_ = data[len(data)-1]
			}
		}
	})
	if pv != nil {
		return "PANIC", fmt.Errorf("quic.ReadCryptoPayload panicked: %v\ndatagram (hex, %d bytes, cap==len): %s\n%s", pv, len(pkt), v03Hex(pkt), stack)
	}
	if !bytes.Equal(in, pkt) {
		// not C03 (C17's business), only recorded
		cls += "+modified-input"
	}
	if err := v03Probe(); err != nil {
		return cls, fmt.Errorf("service did not continue after datagram %s: %v", v03Hex(pkt), err)
	}
	return cls, nil
}

// TestVerifC03_Regress_ShortHeaderSample: the repaired defect (fix cad8508), library-free:
// 40 00000001 00 00 00 01 xx parses as a "long header" with Length 1 and used to be sliced at [13:29].
func TestVerifC03_Regress_ShortHeaderSample(t *testing.T) {
	st := newVStats("TestVerifC03_Regress_ShortHeaderSample")
	defer st.Flush()
	for _, h := range []string{
		"40000000010000000100",
		"4000000001000000011122",
		"400000000100000013" + strings.Repeat("00", 19),
		"4f6b3343cf0000400100",
		"50000000010000000100",
		"7f00000001010a010b000100",
		"c0000000010000000100",
	} {
		pkt := v03Unhex(h)
		cls, err := v03RunPacket(pkt)
		st.Case(true, h, []string{cls}, func() string { return h + " -> " + cls })
		if err != nil {
			t.Fatalf("C03: %v", err)
		}
	}
}

func TestVerifC03_QUICHeaderGrammar(t *testing.T) {
	st := newVStats("TestVerifC03_QUICHeaderGrammar")
	defer st.Flush()
	rapid.Check(t, func(rt *rapid.T) {
		var pkt []byte
		var desc string
		switch rapid.IntRange(0, 9).Draw(rt, "kind") {
		case 9:
			pkt, desc = rapid.SliceOfN(rapid.Byte(), 0, 64).Draw(rt, "bytes"), "arbitrary"
		case 8: // every prefix of a good packet
			full := v03Unhex(v03RFC9001ClientInitial)
			pkt = full[:rapid.IntRange(0, 64).Draw(rt, "prefix")]
			desc = "rfc-vector-prefix"
		default:
			pkt, desc = v03GenRawHeader(rt)
		}
		cls, err := v03RunPacket(pkt)
		// NT: the long-header parse succeeded, i.e. the version/length/size checks behind it were reached
		nt := cls != "err:EOF" && cls != "err:unexpected EOF" && cls != "err:not a QUIC packet"
		st.Case(nt, fmt.Sprintf("%s|%s|%d", cls, desc, min(len(pkt), 80)), []string{cls}, func() string { return desc + " -> " + cls + " : " + v03Hex(pkt) })
		if err != nil {
			rt.Fatalf("C03: %v", err)
		}
	})
}

func TestVerifC03_QUICProtectedFrames(t *testing.T) {
	st := newVStats("TestVerifC03_QUICProtectedFrames")
	defer st.Flush()
	rapid.Check(t, func(rt *rapid.T) {
		pl, fdesc := v03GenFrames(rt)
		pkt, pdesc := v03GenProtected(rt, pl)
		cls, err := v03RunPacket(pkt)
		// NT: the AEAD opened, so the frame parser saw the hostile plaintext
		nt := cls != "err:decryption failed" && cls != "err:packet is too short" && cls != "err:packet is too small" && !strings.HasPrefix(cls, "err:EOF")
		shape := strings.Fields(fdesc)[0]
		st.Case(nt, fmt.Sprintf("%s|%s|%s|%d", fdesc, pdesc, cls, len(pl)), []string{cls, "shape:" + shape},
			func() string { return pdesc + " | " + fdesc + " | plaintext " + v03Hex(pl) + " -> " + cls })
		if err != nil {
			rt.Fatalf("C03: %v\n(%s | %s | plaintext %s)", err, pdesc, fdesc, v03Hex(pl))
		}
	})
}

// FuzzVerifC03_QUICInitial: raw datagram bytes.
func FuzzVerifC03_QUICInitial(f *testing.F) {
	f.Add(v03Unhex(v03RFC9001ClientInitial))
	f.Add(v03Unhex(v03RFC9001ClientInitial)[:64])
	f.Add(v03Unhex("40000000010000000100"))
	f.Add(v03Unhex("c0000000010000000100"))
	f.Add(v03Unhex("c000000001088394c8f03e5157080000449e"))
	f.Add(v03Unhex("d06b3343cf088394c8f03e5157080000449e"))
	f.Add(v03Unhex("c00000000100007fffffffffffffff00"))
	f.Add(v03Unhex("c0000000010000ffffffffffffffff"))
	f.Add(v03Unhex("c0000000010000c000000000000000" + strings.Repeat("00", 24)))
	f.Add(v03Unhex("c000000001ff"))
	f.Add(v03Unhex("c00000000100ff"))
	f.Add(v03Unhex("c000000001000014" + strings.Repeat("ab", 20)))
	f.Add(v03Unhex("4000000001000013" + strings.Repeat("ab", 19)))
	f.Add(v03QProtect(v03QPkt{version: v03V1, dcid: v03Fill(8, 1), pnLen: 1, payload: []byte{0x06, 0x00, 0x04, 1, 0, 0, 0}}))
	f.Add([]byte{})
	f.Fuzz(func(t *testing.T, data []byte) {
		if _, err := v03RunPacket(data); err != nil {
			t.Fatalf("C03: %v", err)
		}
	})
}

// FuzzVerifC03_QUICPlaintext: the fuzzer owns the *plaintext* of a correctly protected Initial
// (coverage guidance cannot get through the AEAD by itself) plus the public header knobs.
func FuzzVerifC03_QUICPlaintext(f *testing.F) {
	hello := v03ClientHello([]v03Ext{v03SNIExt("example.com")}, 32, 3)
	one := append([]byte{0x06, 0x00}, v03Varint(nil, uint64(len(hello)))...)
	f.Add(append(one, hello...), uint8(0), uint8(8), uint8(0))
	f.Add([]byte{0x06, 0x00, 0x02, 1, 2, 0x06, 0x02, 0x02, 3, 4}, uint8(1), uint8(8), uint8(0))
	f.Add([]byte{0x06, 0xff, 0xff, 0xff, 0xff, 0xff, 0xff, 0xff, 0xff, 0x01, 0x00}, uint8(0), uint8(0), uint8(1))
	f.Add([]byte{0x06, 0x00, 0xff, 0xff, 0xff, 0xff, 0xff, 0xff, 0xff, 0xff}, uint8(0), uint8(20), uint8(3))
	f.Add([]byte{0x06, 0xc0, 0, 0, 0, 0, 4, 0, 0, 0x01, 'a', 0x06, 0xc0, 0, 0, 0, 0, 4, 0, 1, 0x01, 'b'}, uint8(0), uint8(8), uint8(0))
	f.Add([]byte{0x06, 0x80, 0x04, 0x00, 0x00, 0x01, 'a', 0x06, 0x80, 0x04, 0x00, 0x01, 0x01, 'b'}, uint8(0), uint8(8), uint8(0))
	f.Add([]byte{0x00, 0x00, 0x01, 0x01, 0x02}, uint8(0), uint8(8), uint8(0))
	f.Add([]byte{0x40, 0x06, 0x00, 0x00}, uint8(1), uint8(8), uint8(2))
	f.Add([]byte{0x06}, uint8(0), uint8(8), uint8(0))
	// interval algebra over one stream: contained (both orders), nested, shared start / end, empty inside / at the edges, re-covering
	cf := func(off, n int) []byte {
		return append(v03Varint(v03Varint([]byte{0x06}, uint64(off)), uint64(n)), hello[off:off+n]...)
	}
	cat := func(fr ...[]byte) (out []byte) {
		for _, x := range fr {
			out = append(out, x...)
		}
		return out
	}
	f.Add(cat(cf(0, 60), cf(10, 5)), uint8(0), uint8(8), uint8(0))
	f.Add(cat(cf(10, 5), cf(0, 60)), uint8(0), uint8(8), uint8(0))
	f.Add(cat(cf(0, 60), cf(5, 40), cf(10, 20), cf(12, 3)), uint8(0), uint8(8), uint8(0))
	f.Add(cat(cf(0, 60), cf(0, 10), cf(50, 10)), uint8(0), uint8(8), uint8(0))
	f.Add(cat(cf(0, 60), cf(30, 0), cf(0, 0), cf(60, 0)), uint8(0), uint8(8), uint8(0))
	f.Add(cat(cf(0, 60), cf(0, 8), cf(8, 8), cf(16, 8), cf(24, 8), cf(32, 8), cf(40, 8)), uint8(1), uint8(8), uint8(0))
	f.Add(cat(cf(0, 30), cf(20, 30), cf(25, 2), cf(70, 3)), uint8(0), uint8(8), uint8(0))
	f.Fuzz(func(t *testing.T, plaintext []byte, ver uint8, dcidLen uint8, pnl uint8) {
		p := v03QPkt{version: v03V1, dcid: v03Fill(int(dcidLen)%21, 0x83), pnLen: int(pnl)%4 + 1, pn: uint32(pnl >> 2 & 3), payload: append([]byte(nil), plaintext...)}
		if ver&1 == 1 {
			p.version = v03V2
		}
		if ver&2 != 0 {
			p.token = v03Fill(int(ver>>2), 7)
		}
		for len(p.payload)+p.pnLen < 4 {
			p.payload = append(p.payload, 0)
		}
		if _, err := v03RunPacket(v03QProtect(p)); err != nil {
			t.Fatalf("C03: %v\nplaintext: %s", err, v03Hex(plaintext))
		}
	})
}
