package sniff

// C03 — input builders for the QUIC / TLS sniffing paths (generation only, no oracle).
//
// Own implementation of RFC 9001 Initial packet protection (v1 and v2 salts and
// labels), QUIC varints, CRYPTO/PADDING/PING frames and a TLS ClientHello writer,
// so that hostile *plaintext* gets past the AEAD of the code under test exactly
// as a remote client could arrange (the Initial keys are derived from public
// packet fields). Copy of extras/sniff/internal/quic/c03_qbuild_test.go with another
// package clause (keep the two in sync).

import (
	"crypto/aes"
	"crypto/cipher"
	"crypto/sha256"
	"encoding/binary"
	"encoding/hex"
	"fmt"
	"io"
	"runtime/debug"
	"strings"

	"golang.org/x/crypto/hkdf"
	"pgregory.net/rapid"
)

func v03Guard(fn func()) (pv any, stack string) {
	defer func() {
		if r := recover(); r != nil {
			pv, stack = r, string(debug.Stack())
		}
	}()
	fn()
	return nil, ""
}

func v03Tight(b []byte) []byte {
	c := make([]byte, len(b))
	copy(c, b)
	return c[:len(c):len(c)]
}

func v03Hex(b []byte) string {
	if len(b) > 1500 {
		return fmt.Sprintf("%s…(%d bytes total)", hex.EncodeToString(b[:1500]), len(b))
	}
	return hex.EncodeToString(b)
}

func v03Fill(n int, salt byte) []byte {
	b := make([]byte, n)
	for i := range b {
		b[i] = byte(i)*29 + salt
	}
	return b
}

func v03MinWidth(v uint64) int {
	switch {
	case v <= 63:
		return 1
	case v <= 16383:
		return 2
	case v <= 1073741823:
		return 4
	}
	return 8
}

func v03PutVarint(b []byte, v uint64, width int) []byte {
	switch width {
	case 1:
		return append(b, byte(v)&0x3f)
	case 2:
		return append(b, byte(v>>8)&0x3f|0x40, byte(v))
	case 4:
		return append(b, byte(v>>24)&0x3f|0x80, byte(v>>16), byte(v>>8), byte(v))
	default:
		return append(b, byte(v>>56)&0x3f|0xc0, byte(v>>48), byte(v>>40), byte(v>>32), byte(v>>24), byte(v>>16), byte(v>>8), byte(v))
	}
}

func v03Varint(b []byte, v uint64) []byte { return v03PutVarint(b, v, v03MinWidth(v)) }

func v03GenWidth(rt *rapid.T, v uint64, label string) int {
	ws := []int{}
	for _, w := range []int{1, 2, 4, 8} {
		if w >= v03MinWidth(v) {
			ws = append(ws, w)
		}
	}
	return rapid.SampledFrom(ws).Draw(rt, label)
}

// v03Mostly returns choices[0] (the well-formed one) most of the time.
func v03Mostly[T any](rt *rapid.T, label string, choices []T) T {
	if rapid.IntRange(0, 9).Draw(rt, label+"_std") < 7 {
		return choices[0]
	}
	return rapid.SampledFrom(choices).Draw(rt, label)
}

const (
	v03V1 uint32 = 1
	v03V2 uint32 = 0x6b3343cf
)

var (
	v03SaltV1 = []byte{0x38, 0x76, 0x2c, 0xf7, 0xf5, 0x59, 0x34, 0xb3, 0x4d, 0x17, 0x9a, 0xe6, 0xa4, 0xc8, 0x0c, 0xad, 0xcc, 0xbb, 0x7f, 0x0a}
	v03SaltV2 = []byte{0x0d, 0xed, 0xe3, 0xde, 0xf7, 0x00, 0xa6, 0xdb, 0x81, 0x93, 0x81, 0xbe, 0x6e, 0x26, 0x9d, 0xcb, 0xf9, 0xbd, 0x2e, 0xd9}
)

func v03ExpandLabel(secret []byte, label string, n int) []byte {
	full := "tls13 " + label
	info := []byte{byte(n >> 8), byte(n), byte(len(full))}
	info = append(info, full...)
	info = append(info, 0)
	out := make([]byte, n)
	if _, err := io.ReadFull(hkdf.Expand(sha256.New, secret, info), out); err != nil {
		panic(err)
	}
	return out
}

type v03QPkt struct {
	first   byte // 0 = derive from version/pnLen
	version uint32
	dcid    []byte
	scid    []byte
	token   []byte
	pn      uint32
	pnLen   int // 1..4
	payload []byte
	lenAdj  int // added to the declared Length field (0 = honest)
	trail   []byte
}

// v03QProtect writes a client Initial packet with real packet protection.
func v03QProtect(p v03QPkt) []byte {
	salt, lk, li, lh := v03SaltV1, "quic key", "quic iv", "quic hp"
	first := byte(0xc0)
	if p.version == v03V2 {
		salt, lk, li, lh = v03SaltV2, "quicv2 key", "quicv2 iv", "quicv2 hp"
		first = 0xd0
	}
	if p.pnLen < 1 || p.pnLen > 4 {
		p.pnLen = 1
	}
	first |= byte(p.pnLen - 1)
	if p.first != 0 {
		first = p.first&0xfc | byte(p.pnLen-1)
	}
	initial := hkdf.Extract(sha256.New, p.dcid, salt)
	secret := v03ExpandLabel(initial, "client in", 32)
	key, iv, hp := v03ExpandLabel(secret, lk, 16), v03ExpandLabel(secret, li, 12), v03ExpandLabel(secret, lh, 16)

	hdr := []byte{first}
	hdr = binary.BigEndian.AppendUint32(hdr, p.version)
	hdr = append(hdr, byte(len(p.dcid)))
	hdr = append(hdr, p.dcid...)
	hdr = append(hdr, byte(len(p.scid)))
	hdr = append(hdr, p.scid...)
	hdr = v03Varint(hdr, uint64(len(p.token)))
	hdr = append(hdr, p.token...)
	declared := p.pnLen + len(p.payload) + 16 + p.lenAdj
	if declared < 0 {
		declared = 0
	}
	hdr = v03PutVarint(hdr, uint64(declared), max(2, v03MinWidth(uint64(declared))))
	pnOff := len(hdr)
	for i := p.pnLen - 1; i >= 0; i-- {
		hdr = append(hdr, byte(p.pn>>(8*i)))
	}
	blk, _ := aes.NewCipher(key)
	aead, _ := cipher.NewGCM(blk)
	nonce := make([]byte, 12)
	binary.BigEndian.PutUint64(nonce[4:], uint64(p.pn))
	for i := range nonce {
		nonce[i] ^= iv[i]
	}
	pkt := aead.Seal(hdr, nonce, p.payload, hdr)
	if len(pkt) >= pnOff+4+16 {
		hb, _ := aes.NewCipher(hp)
		mask := make([]byte, 16)
		hb.Encrypt(mask, pkt[pnOff+4:pnOff+20])
		pkt[0] ^= mask[0] & 0x0f
		for i := 0; i < p.pnLen; i++ {
			pkt[pnOff+i] ^= mask[1+i]
		}
	}
	return append(pkt, p.trail...)
}

// ---- TLS ClientHello writer ----

type v03Ext struct {
	typ  uint16
	body []byte
}

func v03SNIExt(name string) v03Ext {
	b := binary.BigEndian.AppendUint16(nil, uint16(len(name)+3))
	b = append(b, 0)
	b = binary.BigEndian.AppendUint16(b, uint16(len(name)))
	return v03Ext{0, append(b, name...)}
}

func v03ClientHello(exts []v03Ext, sidLen int, nSuites int) []byte {
	body := []byte{0x03, 0x03}
	body = append(body, v03Fill(32, 0x11)...)
	body = append(body, byte(sidLen))
	body = append(body, v03Fill(sidLen, 0x22)...)
	body = binary.BigEndian.AppendUint16(body, uint16(2*nSuites))
	for i := 0; i < nSuites; i++ {
		body = append(body, 0x13, byte(1+i%3))
	}
	body = append(body, 1, 0)
	var eb []byte
	for _, e := range exts {
		eb = binary.BigEndian.AppendUint16(eb, e.typ)
		eb = binary.BigEndian.AppendUint16(eb, uint16(len(e.body)))
		eb = append(eb, e.body...)
	}
	body = binary.BigEndian.AppendUint16(body, uint16(len(eb)))
	body = append(body, eb...)
	out := []byte{0x01, byte(len(body) >> 16), byte(len(body) >> 8), byte(len(body))}
	return append(out, body...)
}

var v03ExtTypes = []uint16{0, 0, 5, 10, 11, 13, 16, 16, 18, 21, 23, 27, 28, 34, 35, 41, 42, 43, 43, 44, 45, 49, 50, 51, 51, 57, 0x4469, 0xfe0d, 0xff01, 0x0a0a, 17513, 0xfd00}

// v03GenClientHello: mostly well-formed hello with an SNI, with hostile extension bodies and mutations.
func v03GenClientHello(rt *rapid.T) (ch []byte, desc string) {
	var exts []v03Ext
	name := v03Mostly(rt, "sni", []string{"example.com", "a", "xn--bcher-kva.example", string(v03Fill(255, 'a')), "", "bad host\x00", "1.2.3.4"})
	n := rapid.IntRange(0, 6).Draw(rt, "nexts")
	sniAt := rapid.IntRange(-1, n).Draw(rt, "sniAt")
	clean := rapid.IntRange(0, 9).Draw(rt, "cleanExts") < 5
	wellFormed := []v03Ext{
		{43, []byte{2, 3, 4}},                                    // supported_versions
		{16, []byte{0, 3, 2, 'h', '3'}},                          // ALPN
		{10, []byte{0, 4, 0, 29, 0, 23}},                         // supported_groups
		{13, []byte{0, 4, 4, 3, 8, 4}},                           // signature_algorithms
		{51, append([]byte{0, 36, 0, 29, 0, 32}, v03Fill(32, 9)...)}, // key_share
		{45, []byte{1, 1}},                                       // psk_key_exchange_modes
		{57, []byte{1, 2, 0x40, 0x64, 4, 1, 8}},                  // quic_transport_parameters
		{0x0a0a, nil},                                            // GREASE
	}
	for i := 0; i <= n; i++ {
		if i == sniAt {
			exts = append(exts, v03SNIExt(name))
			continue
		}
		if clean {
			exts = append(exts, rapid.SampledFrom(wellFormed).Draw(rt, "wfExt"))
			continue
		}
		t := rapid.SampledFrom(v03ExtTypes).Draw(rt, "extType")
		var body []byte
		switch rapid.IntRange(0, 3).Draw(rt, "extBody") {
		case 0:
		case 1:
			body = rapid.SliceOfN(rapid.Byte(), 0, 24).Draw(rt, "extBytes")
		case 2: // length-prefixed list shape with an honest or dishonest inner length
			inner := rapid.SliceOfN(rapid.Byte(), 0, 16).Draw(rt, "extInner")
			l := len(inner) + rapid.IntRange(-2, 2).Draw(rt, "extLie")
			if l < 0 {
				l = 0
			}
			body = append(binary.BigEndian.AppendUint16(nil, uint16(l)), inner...)
		default:
			inner := rapid.SliceOfN(rapid.Byte(), 0, 16).Draw(rt, "extInner1")
			l := len(inner) + rapid.IntRange(-1, 1).Draw(rt, "extLie1")
			if l < 0 {
				l = 0
			}
			body = append([]byte{byte(l)}, inner...)
		}
		exts = append(exts, v03Ext{t, body})
	}
	ch = v03ClientHello(exts, v03Mostly(rt, "sidLen", []int{32, 0, 1, 255}), v03Mostly(rt, "nSuites", []int{3, 0, 1, 17}))
	desc = fmt.Sprintf("hello(sni=%q@%d of %d exts)", name[:min(len(name), 24)], sniAt, n+1)
	switch rapid.IntRange(0, 15).Draw(rt, "chMut") {
	case 0:
		ch = ch[:rapid.IntRange(0, len(ch)).Draw(rt, "chCut")]
		desc += "+cut"
	case 1:
		for k := rapid.IntRange(1, 4).Draw(rt, "nflips"); k > 0; k-- {
			i := rapid.IntRange(0, len(ch)-1).Draw(rt, "flipAt")
			ch[i] ^= byte(1 << rapid.IntRange(0, 7).Draw(rt, "flipBit"))
		}
		desc += "+flips"
	case 2: // handshake length field lies
		adj := rapid.SampledFrom([]int{-5, -1, 1, 5, 70000}).Draw(rt, "hsLenLie")
		l := len(ch) - 4 + adj
		if l < 0 {
			l = 0
		}
		ch[1], ch[2], ch[3] = byte(l>>16), byte(l>>8), byte(l)
		desc += "+hslen-lie"
	case 3:
		ch = append(ch, rapid.SliceOfN(rapid.Byte(), 1, 12).Draw(rt, "chTrail")...)
		desc += "+trailing"
	}
	return ch, desc
}

// ---- QUIC generators ----

// offsets/lengths: nothing between 256Ki+1 and 2^49 (see c03 protocol harness: a tree that
// lost a cap would attempt multi-GiB allocations there; > 2^48 panics in makeslice instead).
var v03BigVals = []uint64{0, 1, 2, 63, 64, 1199, 16383, 16384, 262143, 262144, 262145, 1 << 49, 1 << 61, 1<<62 - 2, 1<<62 - 1}

// v03GenFrames: a hostile plaintext payload for an Initial packet.
func v03GenFrames(rt *rapid.T) (pl []byte, desc string) {
	hello, hdesc := v03GenClientHello(rt)
	switch rapid.IntRange(0, 8).Draw(rt, "frameShape") {
	case 7, 8: // a set of CRYPTO frames drawn from the interval algebra over one consistent stream
		stream := append(append([]byte(nil), hello...), v03Fill(400, 0x6c)...)
		ivs, rels := v03GenIntervals(rt, len(hello), len(stream))
		for _, iv := range rapid.Permutation(ivs).Draw(rt, "ivOrder") {
			pl = append(pl, 0x06)
			pl = v03PutVarint(pl, uint64(iv[0]), v03GenWidth(rt, uint64(iv[0]), "ivOffW"))
			pl = v03Varint(pl, uint64(iv[1]-iv[0]))
			pl = append(pl, stream[iv[0]:iv[1]]...)
			if rapid.IntRange(0, 5).Draw(rt, "ivPad") == 5 {
				pl = append(pl, 0x00, 0x01)
			}
		}
		return pl, fmt.Sprintf("interval-set n=%d %s %v %s", len(ivs), strings.Join(rels, ","), ivs, hdesc)
	case 6: // a complete, well-formed CRYPTO stream at maximal sizes: a hello padded (extension 21) up to what one
		// UDP datagram can carry, in 1..6 contiguous frames in any order, placed so that it ends at / just past the 256 KiB cap
		padSz := rapid.SampledFrom([]int{60000, 60000, 16000, 4000, 1500}).Draw(rt, "bigPad")
		big := v03ClientHello([]v03Ext{v03SNIExt("big.example"), {43, []byte{2, 3, 4}}, {21, make([]byte, padSz)}}, 32, 3)
		base := rapid.SampledFrom([]uint64{0, 0, uint64(262144 - len(big)), uint64(262144 - len(big) + 1), 200000, 65536, 1}).Draw(rt, "bigBase")
		k := rapid.IntRange(1, 6).Draw(rt, "bigParts")
		type part struct {
			off  uint64
			data []byte
		}
		var parts []part
		step := (len(big) + k - 1) / k
		for o := 0; o < len(big); o += step {
			parts = append(parts, part{base + uint64(o), big[o:min(len(big), o+step)]})
		}
		parts = rapid.Permutation(parts).Draw(rt, "bigPerm")
		for _, p := range parts {
			pl = append(pl, 0x06)
			pl = v03Varint(pl, p.off)
			pl = v03Varint(pl, uint64(len(p.data)))
			pl = append(pl, p.data...)
		}
		return pl, fmt.Sprintf("big-crypto total=%d base=%d parts=%d", len(big), base, len(parts))
	case 0: // the hello in one frame, maybe padded
		pl = append(pl, make([]byte, rapid.IntRange(0, 3).Draw(rt, "padBefore"))...)
		pl = append(pl, 0x06, 0x00)
		pl = v03Varint(pl, uint64(len(hello)))
		pl = append(pl, hello...)
		pl = append(pl, make([]byte, rapid.IntRange(0, 30).Draw(rt, "padAfter"))...)
		return pl, "single-crypto " + hdesc
	case 1: // the hello split into contiguous frames, shuffled, at some base offset
		base := v03Mostly(rt, "base", v03BigVals)
		k := rapid.IntRange(2, 4).Draw(rt, "parts")
		type part struct {
			off  uint64
			data []byte
		}
		var parts []part
		step := (len(hello) + k - 1) / k
		if step == 0 {
			step = 1
		}
		for o := 0; o < len(hello); o += step {
			e := o + step
			if e > len(hello) {
				e = len(hello)
			}
			parts = append(parts, part{base + uint64(o), hello[o:e]})
		}
		if len(parts) >= 2 {
			perm := rapid.Permutation(parts).Draw(rt, "perm")
			parts = perm
		}
		mut := v03Mostly(rt, "contig", []string{"none", "gap", "overlap", "dup"})
		for i, p := range parts {
			off := p.off
			if i == len(parts)-1 {
				switch mut {
				case "gap":
					off++
				case "overlap":
					if off > 0 {
						off--
					}
				}
			}
			pl = append(pl, 0x06)
			pl = v03PutVarint(pl, off&(1<<62-1), 8)
			pl = v03Varint(pl, uint64(len(p.data)))
			pl = append(pl, p.data...)
			if mut == "dup" && i == 0 {
				pl = append(pl, 0x06)
				pl = v03PutVarint(pl, off&(1<<62-1), 8)
				pl = v03Varint(pl, uint64(len(p.data)))
				pl = append(pl, p.data...)
			}
			if rapid.Bool().Draw(rt, "pingBetween") {
				pl = append(pl, 0x01)
			}
		}
		return pl, fmt.Sprintf("multi-crypto base=%d parts=%d %s %s", base, len(parts), mut, hdesc)
	case 2: // one crypto frame whose declared values lie
		off := rapid.SampledFrom(v03BigVals).Draw(rt, "off")
		avail := rapid.IntRange(0, 40).Draw(rt, "avail")
		var dl uint64
		switch rapid.IntRange(0, 3).Draw(rt, "dlMode") {
		case 0:
			dl = uint64(avail)
		case 1:
			dl = uint64(avail) + 1
		default:
			dl = rapid.SampledFrom(v03BigVals).Draw(rt, "dl")
		}
		pl = append(pl, 0x06)
		pl = v03PutVarint(pl, off, v03GenWidth(rt, off, "offW"))
		pl = v03PutVarint(pl, dl, v03GenWidth(rt, dl, "dlW"))
		pl = append(pl, v03Fill(avail, 1)...)
		// and perhaps a second, contiguous-looking frame so that assembly runs
		if rapid.Bool().Draw(rt, "second") && dl == uint64(avail) {
			pl = append(pl, 0x06)
			pl = v03PutVarint(pl, (off+dl)&(1<<62-1), 8)
			pl = append(pl, 0x02, 'x', 'y')
		}
		return pl, fmt.Sprintf("lying-crypto off=%d declared=%d avail=%d", off, dl, avail)
	case 3: // frame soup
		for k := rapid.IntRange(1, 8).Draw(rt, "nframes"); k > 0; k-- {
			switch rapid.IntRange(0, 6).Draw(rt, "ftype") {
			case 0:
				pl = append(pl, make([]byte, rapid.IntRange(1, 5).Draw(rt, "pad"))...)
			case 1:
				pl = append(pl, 0x01)
			case 2:
				d := rapid.SliceOfN(rapid.Byte(), 0, 12).Draw(rt, "cdata")
				pl = append(pl, 0x06)
				pl = v03Varint(pl, uint64(rapid.IntRange(0, 40).Draw(rt, "coff")))
				pl = v03Varint(pl, uint64(len(d)))
				pl = append(pl, d...)
			case 3: // non-minimal frame type encodings
				pl = append(pl, rapid.SampledFrom([][]byte{{0x40, 0x06}, {0x80, 0, 0, 0x06}, {0x40, 0x00}, {0x40, 0x01}}).Draw(rt, "nonmin")...)
			case 4:
				pl = append(pl, rapid.SampledFrom([]byte{0x02, 0x03, 0x1c, 0x1d, 0x1e, 0x30, 0x3f, 0x7f, 0xff}).Draw(rt, "otherType"))
			default:
				pl = append(pl, rapid.SliceOfN(rapid.Byte(), 1, 6).Draw(rt, "junkFrame")...)
			}
		}
		return pl, "frame-soup"
	case 4: // truncated varints at the very end
		pl = append(pl, 0x06)
		tail := rapid.SampledFrom([][]byte{{}, {0x40}, {0x00}, {0x00, 0x80, 0x00}, {0xc0, 0, 0, 0}, {0x00, 0xc0}}).Draw(rt, "tail")
		return append(pl, tail...), "crypto-truncated"
	default:
		return rapid.SliceOfN(rapid.Byte(), 0, 48).Draw(rt, "plBytes"), "arbitrary-plaintext"
	}
}

// v03GenIntervals draws 2..9 half-open byte ranges [a,b) of a stream of length max; the first one is the
// "natural" frame (mostly [0,natural)), every further one stands in a drawn relation of the interval algebra
// (before/after with a gap, adjacent, partial overlap on either side, strictly contained, containing, equal,
// sharing the start or the end, empty inside / at an edge / beyond, many small ranges re-covering) to an
// earlier one. Returned with the relation names for the case description.
func v03GenIntervals(rt *rapid.T, natural, max int) (ivs [][2]int, rels []string) {
	clip := func(x int) int {
		if x < 0 {
			return 0
		}
		if x > max {
			return max
		}
		return x
	}
	first := [2]int{0, natural}
	switch rapid.IntRange(0, 7).Draw(rt, "ivFirst") {
	case 5:
		first = [2]int{0, clip(natural / 2)}
	case 6:
		first = [2]int{clip(rapid.IntRange(1, 40).Draw(rt, "ivFirstStart")), natural}
	case 7:
		first = [2]int{0, clip(rapid.IntRange(0, 8).Draw(rt, "ivFirstTiny"))}
	}
	if first[1] < first[0] {
		first[1] = first[0]
	}
	ivs, rels = append(ivs, first), append(rels, "first")
	relNames := []string{"contained", "contained", "containing", "equal", "same-start-shorter", "same-start-longer", "same-end-shorter", "same-end-longer",
		"overlap-right", "overlap-left", "adjacent-after", "adjacent-before", "gap-after", "gap-before",
		"empty-inside", "empty-at-start", "empty-at-end", "empty-beyond", "many-small"}
	for k := rapid.IntRange(1, 5).Draw(rt, "ivMore"); k > 0 && len(ivs) < 9; k-- {
		r := rapid.SampledFrom(ivs).Draw(rt, "ivRef")
		a, b := r[0], r[1]
		l := b - a
		d := func(label string, hi int) int { // 1..hi (>=1)
			if hi < 1 {
				hi = 1
			}
			return rapid.IntRange(1, hi).Draw(rt, label)
		}
		rel := rapid.SampledFrom(relNames).Draw(rt, "ivRel")
		var n [2]int
		switch rel {
		case "contained":
			i := d("ivIn1", l/2)
			j := d("ivIn2", l/2)
			n = [2]int{a + i, b - j}
		case "containing":
			n = [2]int{a - d("ivOut1", 20), b + d("ivOut2", 20)}
		case "equal":
			n = r
		case "same-start-shorter":
			n = [2]int{a, b - d("ivS1", l)}
		case "same-start-longer":
			n = [2]int{a, b + d("ivS2", 30)}
		case "same-end-shorter":
			n = [2]int{a + d("ivE1", l), b}
		case "same-end-longer":
			n = [2]int{a - d("ivE2", 30), b}
		case "overlap-right":
			n = [2]int{a + d("ivOR1", l), b + d("ivOR2", 30)}
		case "overlap-left":
			n = [2]int{a - d("ivOL1", 30), b - d("ivOL2", l)}
		case "adjacent-after":
			n = [2]int{b, b + d("ivAA", 40)}
		case "adjacent-before":
			n = [2]int{a - d("ivAB", 40), a}
		case "gap-after":
			g := d("ivGA", 10)
			n = [2]int{b + g, b + g + d("ivGA2", 20)}
		case "gap-before":
			g := d("ivGB", 10)
			n = [2]int{a - g - d("ivGB2", 20), a - g}
		case "empty-inside":
			x := a + d("ivEI", l) - 1
			n = [2]int{x, x}
		case "empty-at-start":
			n = [2]int{a, a}
		case "empty-at-end":
			n = [2]int{b, b}
		case "empty-beyond":
			x := b + d("ivEB", 30)
			n = [2]int{x, x}
		case "many-small":
			step := d("ivStep", 16)
			for x := a; x < b && len(ivs) < 9; x += step {
				ivs = append(ivs, [2]int{clip(x), clip(min(x+step+rapid.IntRange(0, 3).Draw(rt, "ivSmallExtra"), b))})
			}
			rels = append(rels, rel)
			continue
		}
		n[0], n[1] = clip(n[0]), clip(n[1])
		if n[1] < n[0] {
			n[1] = n[0]
		}
		ivs, rels = append(ivs, n), append(rels, rel)
	}
	return ivs, rels
}

// v03GenProtected: a properly protected Initial carrying the payload.
func v03GenProtected(rt *rapid.T, payload []byte) (pkt []byte, desc string) {
	p := v03QPkt{payload: payload}
	p.version = rapid.SampledFrom([]uint32{v03V1, v03V1, v03V2}).Draw(rt, "version")
	p.dcid = v03Fill(rapid.SampledFrom([]int{8, 8, 0, 1, 20, 255}).Draw(rt, "dcidLen"), 0x83)
	p.scid = v03Fill(rapid.SampledFrom([]int{0, 0, 8, 20, 255}).Draw(rt, "scidLen"), 0x55)
	p.token = v03Fill(rapid.SampledFrom([]int{0, 0, 0, 1, 16, 63, 64, 300}).Draw(rt, "tokenLen"), 0x77)
	p.pnLen = rapid.IntRange(1, 4).Draw(rt, "pnLen")
	p.pn = uint32(rapid.SampledFrom([]int{0, 0, 1, 2, 3, 130, 255}).Draw(rt, "pn"))
	for len(p.payload)+p.pnLen < 4 {
		p.payload = append(p.payload, 0) // room for the header protection sample
	}
	if rapid.IntRange(0, 7).Draw(rt, "padTo1200") == 0 && len(p.payload) < 1150 {
		p.payload = append(p.payload, make([]byte, 1150-len(p.payload))...)
	}
	p.lenAdj = v03Mostly(rt, "lenAdj", []int{0, -1, 1, -16, -17, -1000})
	if rapid.IntRange(0, 5).Draw(rt, "coalesced") == 0 {
		p.trail = rapid.SliceOfN(rapid.Byte(), 1, 30).Draw(rt, "trail")
	}
	if rapid.IntRange(0, 19).Draw(rt, "firstByte") == 7 {
		// the form bit is not required by the parser; fixed bit must be set for version != 0
		p.first = rapid.SampledFrom([]byte{0x40, 0x50, 0x4c, 0xcc, 0xdc, 0xe0, 0xf0}).Draw(rt, "first")
	}
	pkt = v03QProtect(p)
	return pkt, fmt.Sprintf("protected v=%x dcid=%d scid=%d token=%d pn=%d/%d lenAdj=%d trail=%d first=%#x",
		p.version, len(p.dcid), len(p.scid), len(p.token), p.pn, p.pnLen, p.lenAdj, len(p.trail), pkt[0])
}

// v03GenRawHeader: header grammar without valid protection: declared vs. actual everywhere.
func v03GenRawHeader(rt *rapid.T) (pkt []byte, desc string) {
	first := rapid.SampledFrom([]byte{0xc0, 0xc3, 0xd0, 0xe0, 0xf0, 0xff, 0x40, 0x41, 0x43, 0x4f, 0x50, 0x7f, 0x00, 0x80, 0xcf}).Draw(rt, "first")
	ver := rapid.SampledFrom([]uint32{v03V1, v03V1, v03V1, v03V2, v03V2, 0, 0xff00001d, 0xfaceb002, 0x0a0a0a0a}).Draw(rt, "version")
	pkt = append(pkt, first)
	pkt = binary.BigEndian.AppendUint32(pkt, ver)
	cut := func(label string) bool { return rapid.IntRange(0, 19).Draw(rt, label) == 0 }
	if cut("cutAfterVersion") {
		return pkt[:rapid.IntRange(0, len(pkt)).Draw(rt, "cutV")], "cut-in-version"
	}
	for _, which := range []string{"dcid", "scid"} {
		l := rapid.SampledFrom([]int{0, 0, 8, 8, 1, 20, 21, 255}).Draw(rt, which+"Len")
		avail := l
		if rapid.IntRange(0, 7).Draw(rt, which+"Short") == 0 {
			avail = rapid.IntRange(0, l).Draw(rt, which+"Avail")
		}
		pkt = append(pkt, byte(l))
		pkt = append(pkt, v03Fill(avail, 0x33)...)
		if avail < l {
			return pkt, fmt.Sprintf("first=%#x v=%x %s short %d/%d", first, ver, which, avail, l)
		}
	}
	// token (only parsed for the Initial type bits, generated always)
	tl := rapid.SampledFrom([]uint64{0, 0, 0, 0, 0, 0, 1, 16, 63, 64, 1200, 16383, 1 << 20, 1<<62 - 1}).Draw(rt, "tokenLen")
	tavail := int(min(tl, 1300))
	if rapid.IntRange(0, 5).Draw(rt, "tokenShort") == 0 {
		tavail = rapid.IntRange(0, tavail).Draw(rt, "tokenAvail")
	}
	pkt = v03PutVarint(pkt, tl, v03GenWidth(rt, tl, "tokenW"))
	pkt = append(pkt, v03Fill(tavail, 0x44)...)
	if uint64(tavail) < tl {
		return pkt, fmt.Sprintf("first=%#x v=%x token short %d/%d", first, ver, tavail, tl)
	}
	rest := rapid.SampledFrom([]int{0, 1, 2, 3, 4, 5, 15, 16, 17, 19, 20, 21, 22, 23, 24, 40, 1200}).Draw(rt, "rest")
	var dl uint64
	switch rapid.IntRange(0, 4).Draw(rt, "declMode") {
	case 0, 1:
		dl = uint64(rest)
	case 2:
		dl = uint64(max(0, rest+rapid.IntRange(-3, 3).Draw(rt, "declDelta")))
	default:
		dl = rapid.SampledFrom([]uint64{0, 1, 4, 16, 19, 20, 21, 1200, 16383, 1 << 20, 1 << 49, 1<<62 - 1}).Draw(rt, "decl")
	}
	w := v03GenWidth(rt, dl, "declW")
	if cut("cutInLength") && w > 1 {
		full := v03PutVarint(nil, dl, w)
		return append(pkt, full[:rapid.IntRange(1, w-1).Draw(rt, "lcut")]...), "cut-in-length-varint"
	}
	pkt = v03PutVarint(pkt, dl, w)
	if rest <= 40 {
		pkt = append(pkt, rapid.SliceOfN(rapid.Byte(), rest, rest).Draw(rt, "body")...)
	} else {
		pkt = append(pkt, v03Fill(rest, rapid.Byte().Draw(rt, "bodySalt"))...)
	}
	return pkt, fmt.Sprintf("first=%#x v=%x token=%d declared=%d/w%d actual=%d", first, ver, tl, dl, w, rest)
}
