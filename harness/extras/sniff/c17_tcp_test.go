package sniff

// C17, TCP half: Sniffer.TCP over a scripted stream.
//
// Oracle (none of it derived from the code under test):
//   T1  putback ‖ (what can still be read from the stream) == bytes the client sent
//   T2  the read deadline is not left armed and no read was issued that could
//       never return (otherwise "what can still be read" is nothing)
//   T3  *reqAddr is either untouched or join(name, original port) where name
//       is a Host header / request-target authority / TLS host_name that the
//       generator put into the bytes and that ends inside the putback bytes
//   T4  inputs built as truncated (header block or TLS record not complete
//       before the first stall / the end) leave *reqAddr untouched
// Each case hooks 2–4 streams (mixed protocols) with ONE Sniffer, sequentially
// or from concurrent goroutines, keeps every returned putback slice uncopied
// and evaluates T1–T4 for all of them only after the last Sniffer.TCP call
// returned: the server holds the putback while it dials the target, so it
// must not alias memory the sniffer reuses for other streams.
// When Sniffer.TCP returns a non-nil error the server closes the stream and
// forwards nothing: no transparency claim is made (counted, reported).

import (
	"bytes"
	"fmt"
	"sort"
	"strings"
	"sync"
	"testing"

	"pgregory.net/rapid"
)

type v17Cand struct {
	name string
	end  int // offset in sent just after the last byte of the name
}

type v17TCPCase struct {
	kind       string
	sent       []byte
	cands      []v17Cand
	completeBy int   // >0: rewriting requires at least this many bytes before the first stall (T4)
	around     []int // offsets worth cutting at
	desc       string
}

// candidate spellings of an authority: as written, without :port, without brackets
func v17AuthorityForms(raw string) []string {
	out := []string{raw}
	sp := raw
	if i := strings.LastIndexByte(raw, ':'); i >= 0 && !strings.Contains(raw[i:], "]") {
		digits := raw[i+1:]
		ok := true
		for _, c := range digits {
			if c < '0' || c > '9' {
				ok = false
			}
		}
		// "::1" style bare v6 is not host:port
		if ok && (strings.Count(raw, ":") == 1 || strings.HasPrefix(raw, "[")) {
			sp = raw[:i]
			out = append(out, sp)
		}
	}
	for _, x := range []string{raw, sp} {
		if strings.HasPrefix(x, "[") && strings.HasSuffix(x, "]") && len(x) >= 2 {
			out = append(out, x[1:len(x)-1])
		}
	}
	return out
}

func v17GenAuthority(t *rapid.T, name string) string {
	var h string
	switch rapid.IntRange(0, 9).Draw(t, name+"Kind") {
	case 0, 1, 2, 3, 4:
		h = "h-" + v17GenDomain(t, name)
	case 5:
		h = fmt.Sprintf("%d.%d.%d.%d", rapid.IntRange(1, 223).Draw(t, name+"a"), rapid.IntRange(0, 255).Draw(t, name+"b"), rapid.IntRange(0, 255).Draw(t, name+"c"), rapid.IntRange(1, 254).Draw(t, name+"d"))
	case 6:
		h = fmt.Sprintf("[2001:db8::%x]", rapid.IntRange(1, 0xffff).Draw(t, name+"v6"))
	case 7:
		h = "h-" + v17GenDomain(t, name) + "."
	case 8:
		h = strings.ToUpper("h-" + v17GenDomain(t, name))
	case 9:
		h = "" // ":port" or empty
	}
	if rapid.IntRange(0, 2).Draw(t, name+"HasPort") == 0 {
		// a port different from anything the request address uses, so "port taken from Host" shows
		h += ":" + rapid.SampledFrom([]string{"81", "8081", "8444", "1", "65534", "31337"}).Draw(t, name+"Port")
	}
	return h
}

var v17HdrNames = []string{"User-Agent", "Accept", "Accept-Encoding", "Accept-Language", "Cookie", "Referer", "X-Forwarded-Host", "X-Host", "Origin", "Cache-Control", "Content-Type", "Connection", "X-Request-Id", "Authorization", "Via"}

func v17GenHeaderValue(t *rapid.T) string {
	n := rapid.SampledFrom([]int{0, 1, 8, 8, 30, 30, 100, 200}).Draw(t, "hvLen")
	const chars = "abcdefghijklmnopqrstuvwxyzABCDEFGHIJKLMNOPQRSTUVWXYZ0123456789 ;=,/.-_*()"
	b := make([]byte, n)
	for i := range b {
		b[i] = chars[rapid.IntRange(0, len(chars)-1).Draw(t, "hvCh")]
	}
	return strings.TrimSpace(string(b))
}

// v17GenHTTP builds a request the harness believes to be well formed, and
// records where each authority-bearing item ends.
func v17GenHTTP(t *rapid.T) v17TCPCase {
	c := v17TCPCase{kind: "http"}
	eol := "\r\n"
	if rapid.IntRange(0, 9).Draw(t, "bareLF") == 7 {
		eol = "\n"
	}
	method := rapid.SampledFrom([]string{"GET", "GET", "POST", "HEAD", "PUT", "DELETE", "OPTIONS", "PATCH", "CONNECT", "get", "PROPFIND", "Foo"}).Draw(t, "method")
	var buf bytes.Buffer
	buf.WriteString(method + " ")
	addCand := func(raw string) {
		for _, f := range v17AuthorityForms(raw) {
			c.cands = append(c.cands, v17Cand{f, buf.Len()})
		}
	}
	path := "/" + rapid.SampledFrom([]string{"", "index.html", "a/b/c?x=1&host=decoy-query.example.com", "Host:/decoy-path.example.com", strings.Repeat("p", 300)}).Draw(t, "path")
	targetKind := rapid.IntRange(0, 5).Draw(t, "targetKind")
	desc := method
	switch {
	case method == "CONNECT":
		au := v17GenAuthority(t, "connectAuth")
		buf.WriteString(au)
		addCand(au)
		desc += " authority-form " + au
	case targetKind == 0: // absolute-form
		au := v17GenAuthority(t, "absAuth")
		buf.WriteString("http://" + au)
		addCand(au)
		buf.WriteString(path)
		desc += " absolute-form " + au
	case targetKind == 1 && method == "OPTIONS":
		buf.WriteString("*")
	default:
		buf.WriteString(path)
	}
	buf.WriteString(" " + rapid.SampledFrom([]string{"HTTP/1.1", "HTTP/1.1", "HTTP/1.0"}).Draw(t, "proto") + eol)
	c.around = append(c.around, buf.Len())

	nHdr := rapid.SampledFrom([]int{0, 1, 2, 3, 5, 8, 13, 25, 40, 60}).Draw(t, "nHdr")
	hostMode := rapid.SampledFrom([]int{0, 1, 1, 1, 1, 1, 1, 2}).Draw(t, "hostMode") // 0 none, 1 one, 2 two Host headers
	hostAt := map[int]bool{}
	for i := 0; i < hostMode; i++ {
		hostAt[rapid.IntRange(0, nHdr).Draw(t, "hostAt")] = true
	}
	giantAt := -1
	if rapid.IntRange(0, 79).Draw(t, "giant") == 53 {
		giantAt = rapid.IntRange(0, nHdr).Draw(t, "giantAt")
	}
	writeHost := func() {
		au := v17GenAuthority(t, "hostHdr")
		buf.WriteString(rapid.SampledFrom([]string{"Host", "Host", "host", "HOST", "hOsT"}).Draw(t, "hostSpelling") + ":")
		buf.WriteString(rapid.SampledFrom([]string{" ", " ", "", "  ", "\t"}).Draw(t, "ows1"))
		buf.WriteString(au)
		addCand(au)
		c.around = append(c.around, buf.Len())
		buf.WriteString(rapid.SampledFrom([]string{"", "", " "}).Draw(t, "ows2") + eol)
		desc += " Host=" + au
	}
	for i := 0; i <= nHdr; i++ {
		if i == giantAt {
			// pushes whatever follows beyond any sane sniff budget (256 KiB in this implementation)
			gl := rapid.SampledFrom([]int{5000, 70000, 262144 - buf.Len() - 40, 262144, 300000}).Draw(t, "giantLen")
			if gl < 0 {
				gl = 5000
			}
			buf.WriteString("X-Giant: " + strings.Repeat("z", gl))
			buf.WriteString(eol)
			desc += " giant-header"
		}
		if hostAt[i] {
			writeHost()
		}
		if i < nHdr {
			name := rapid.SampledFrom(v17HdrNames).Draw(t, "hdrName")
			val := v17GenHeaderValue(t)
			if name == "X-Forwarded-Host" || name == "X-Host" || name == "Origin" {
				val = "decoy-hdr." + v17GenDomain(t, "decoyHdr") + ":4444"
			}
			buf.WriteString(name + ": " + val + eol)
		}
	}
	buf.WriteString(eol)
	c.completeBy = buf.Len()
	c.around = append(c.around, c.completeBy, 4096, 8192)
	switch rapid.IntRange(0, 4).Draw(t, "after") {
	case 0:
	case 1, 2:
		buf.Write(rapid.SliceOfN(rapid.Byte(), 1, 300).Draw(t, "body"))
	case 3: // pipelined second request with its own Host
		buf.WriteString("GET /second HTTP/1.1\r\nHost: ")
		au := "second-" + v17GenDomain(t, "second")
		buf.WriteString(au)
		addCand(au)
		buf.WriteString("\r\n\r\n")
	case 4: // long body crossing the bufio size
		buf.WriteString(strings.Repeat("B", rapid.IntRange(3000, 9000).Draw(t, "bodyLen")))
	}
	c.sent = buf.Bytes()
	if c.completeBy > 4096 {
		desc += " block>4096"
	}
	c.desc = fmt.Sprintf("%s hdrs=%d block=%d total=%d", desc, nHdr, c.completeBy, len(c.sent))
	if rapid.IntRange(0, 3).Draw(t, "truncate") == 0 {
		// cut anywhere inside the header block: T4 demands an untouched destination
		k := rapid.IntRange(0, c.completeBy-1).Draw(t, "truncAt")
		c.sent = c.sent[:k]
		c.kind = "http-trunc"
		c.desc += fmt.Sprintf(" truncated@%d", k)
	}
	return c
}

func v17GenTLS(t *rapid.T) v17TCPCase {
	c := v17TCPCase{kind: "tls"}
	sniKind := rapid.SampledFrom([]int{0, 1, 1, 1, 1, 1, 2, 3, 4, 5}).Draw(t, "sniKind")
	ch, spans, chDesc := v17BuildCH(t, sniKind)
	typ := byte(rapid.SampledFrom([]int{0x16, 0x16, 0x16, 0x17}).Draw(t, "recType"))
	minor := byte(rapid.SampledFrom([]int{0, 1, 1, 3, 3, 4, 9}).Draw(t, "recMinor"))
	var payload []byte
	declared := 0
	var after []byte
	mode := rapid.SampledFrom([]string{"exact", "exact", "exact", "short", "long-filled", "long-missing", "prefix-record"}).Draw(t, "lenMode")
	switch mode {
	case "exact":
		payload, declared = ch, len(ch)
	case "short": // ClientHello continues in the next record
		k := rapid.IntRange(0, len(ch)-1).Draw(t, "fragAt")
		payload, declared = ch[:k], k
		after = append([]byte{typ, 3, minor}, v17U16(nil, len(ch)-k)...)
		after = append(after, ch[k:]...)
	case "long-filled": // record carries the ClientHello and more handshake bytes
		extra := rapid.SliceOfN(rapid.Byte(), 1, 200).Draw(t, "recExtra")
		payload = append(append([]byte{}, ch...), extra...)
		declared = len(payload)
	case "long-missing": // the record promises more than ever arrives before the stall/end
		payload = ch[:rapid.IntRange(0, len(ch)).Draw(t, "haveOfCH")]
		declared = len(payload) + rapid.SampledFrom([]int{1, 2, 100, 16384, 65535 - len(payload)}).Draw(t, "missing")
		if declared > 65535 {
			declared = 65535
		}
	case "prefix-record": // complete record whose payload is a truncated ClientHello
		k := rapid.IntRange(0, len(ch)-1).Draw(t, "chCut")
		payload, declared = ch[:k], k
	}
	if declared > 65535 { // cannot be expressed in one record: keep what fits
		payload = payload[:65535]
		declared = 65535
	}
	rec := []byte{typ, 3, minor, byte(declared >> 8), byte(declared)}
	rec = append(rec, payload...)
	for _, sp := range spans {
		if sp.end <= len(payload) {
			c.cands = append(c.cands, v17Cand{sp.name, 5 + sp.end})
			c.around = append(c.around, 5+sp.start, 5+sp.end)
		}
	}
	c.completeBy = 5 + declared
	if mode != "long-missing" {
		switch rapid.IntRange(0, 2).Draw(t, "afterRec") {
		case 1:
			after = append(after, rapid.SliceOfN(rapid.Byte(), 1, 100).Draw(t, "afterBytes")...)
		case 2:
			after = append(after, 0x14, 3, 3, 0, 1, 1)
		}
		rec = append(rec, after...)
	} else if len(after) > 0 {
		rec = append(rec, after...)
	}
	c.sent = rec
	c.around = append(c.around, 3, 4, 5, c.completeBy)
	c.kind = "tls-" + mode
	c.desc = fmt.Sprintf("TLS rec type=%#x ver=3.%d declared=%d have=%d %s total=%d", typ, minor, declared, len(payload), chDesc, len(c.sent))
	return c
}

func v17GenOther(t *rapid.T) v17TCPCase {
	c := v17TCPCase{}
	switch rapid.IntRange(0, 5).Draw(t, "otherKind") {
	case 0:
		c.kind = "tiny"
		c.sent = rapid.SliceOfN(rapid.SampledFrom([]byte{'G', 'E', 'T', 0x16, 0x03, 0x01, 0x00, 0xff, ' '}), 0, 2).Draw(t, "tiny")
	case 1: // bytes that match neither probe
		c.kind = "garbage"
		b := rapid.SliceOfN(rapid.Byte(), 3, 400).Draw(t, "garbage")
		b[rapid.IntRange(0, 2).Draw(t, "nonLetterAt")] = byte(rapid.SampledFrom([]int{0x00, 0x01, 0x7f, 0x80, 0xff, ' ', '1', '@', '[', '`', '{', 0x15, 0x18}).Draw(t, "nonLetter"))
		if b[0] == 0x16 || b[0] == 0x17 {
			b[0] = 0x18
		}
		c.sent = b
	case 2: // TLS-looking prefix that is just outside the probe (wrong type / version)
		c.kind = "garbage-neartls"
		ch, _, _ := v17BuildCH(t, 1)
		hdr := rapid.SampledFrom([][]byte{{0x15, 3, 1}, {0x18, 3, 3}, {0x16, 2, 0}, {0x16, 3, 0x0a}, {0x16, 4, 1}, {0x14, 3, 3}}).Draw(t, "nearTLS")
		c.sent = append(append(append([]byte{}, hdr...), v17U16(nil, len(ch))...), ch...)
	case 3: // three letters, then anything that cannot be a request line
		c.kind = "garbage-letters"
		b := rapid.SliceOfN(rapid.Byte(), 3, 400).Draw(t, "garbage")
		copy(b, rapid.SampledFrom([]string{"SSH", "GET", "abc", "ZzZ", "PRI"}).Draw(t, "letters"))
		b = bytes.ReplaceAll(b, []byte("HTTP/"), []byte("XTTP/"))
		c.sent = b
	case 4: // TLS record header with a payload that cannot be a ClientHello
		c.kind = "garbage-tlsframed"
		p := rapid.SliceOfN(rapid.Byte(), 0, 300).Draw(t, "tlsGarbage")
		if len(p) > 38 {
			p[38] = 0xff // session id longer than the record: never parses
			if len(p) > 38+255 {
				p = p[:38+255]
			}
		}
		c.sent = append([]byte{0x16, 3, byte(rapid.IntRange(0, 9).Draw(t, "minor")), byte(len(p) >> 8), byte(len(p))}, p...)
		c.completeBy = len(c.sent)
	case 5: // an HTTP response / other text protocol
		c.kind = "garbage-text"
		c.sent = []byte(rapid.SampledFrom([]string{
			"HTTP/1.1 200 OK\r\nHost: decoy-response.example.com\r\n\r\n",
			"SSH-2.0-OpenSSH_9.6\r\n",
			"Wait It's All Ohio? Always Has Been.",
			"EHLO decoy-smtp.example.com\r\n",
			"GET\r\nHost: decoy-norequestline.example.com\r\n\r\n",
		}).Draw(t, "text"))
	}
	c.around = []int{1, 2, 3, 4, 5}
	c.desc = fmt.Sprintf("%s %s", c.kind, v17Quote(c.sent))
	return c
}

type v17TCPResult struct {
	violation string
	classes   []string
	nt        bool
	fp        string
	render    string
}

// v17TCPRun is one hooked stream of a case. sniff() is the only place the
// code under test runs; the putback slice it returns is kept as returned (no
// copy): from that moment it belongs to the caller (the server holds it while
// it dials the target), so eval() — T1–T4 — is called only after every stream
// of the case has been sniffed with the same Sniffer.
type v17TCPRun struct {
	c        v17TCPCase
	addr     v17Addr
	st       *v17Stream
	drainBuf int
	reqAddr  string
	putback  []byte
	err      error
	lenAtRet int // len(putback) when TCP returned
}

func (r *v17TCPRun) sniff(sn *Sniffer) {
	r.reqAddr = r.addr.render
	r.putback, r.err = sn.TCP(r.st, &r.reqAddr)
	r.lenAtRet = len(r.putback)
}

func (r *v17TCPRun) eval() (res v17TCPResult) {
	c, addr, st, drainBuf := r.c, r.addr, r.st, r.drainBuf
	putback, err, reqAddr := r.putback, r.err, r.reqAddr
	sent := c.sent
	avail := v17FirstStall(st.stalls, len(sent))
	if avail > len(sent) {
		avail = len(sent)
	}
	var stallList []int
	for p := range st.stalls {
		stallList = append(stallList, p)
	}
	sort.Ints(stallList)
	script := fmt.Sprintf("bounds=%v stalls=%v fin=%v finWithData=%v", st.bounds, stallList, st.fin, st.finWithData)
	render := func() string {
		return fmt.Sprintf("case{%s} addr=%s script{%s} -> putback=%d bytes err=%v reqAddr=%s log=%v sent=%s",
			c.desc, addr.render, script, len(putback), err, reqAddr, st.log, v17Quote(sent))
	}
	res.classes = append(res.classes, "kind:"+c.kind)
	if err != nil {
		res.classes = append(res.classes, "error-return(no claim)")
		res.render = render()
		res.fp = "err/" + c.kind
		return res
	}
	// T2
	if st.wouldHang {
		res.violation = "a read was issued with no deadline armed at a point where the client sends nothing more: sniffing would never return"
	} else if st.armed {
		res.violation = "read deadline left armed after sniffing: the rest of the stream cannot be relayed"
	}
	posAfter := st.pos
	rest := st.drain(drainBuf)
	got := append(append([]byte{}, putback...), rest...)
	if res.violation == "" && !bytes.Equal(got, sent) {
		d := v17FirstDiff(got, sent)
		res.violation = fmt.Sprintf("replayed‖remaining != sent: replay %d bytes + remaining %d bytes = %d, sent %d, first difference at offset %d (stream position after sniff %d)",
			len(putback), len(rest), len(got), len(sent), d, posAfter)
	}
	changed := reqAddr != addr.render
	if changed {
		res.classes = append(res.classes, "rewritten", "rewritten:"+strings.SplitN(c.kind, "-", 2)[0])
	} else {
		res.classes = append(res.classes, "unchanged")
	}
	if res.violation == "" && changed {
		if c.completeBy > 0 && avail < c.completeBy {
			res.violation = fmt.Sprintf("destination rewritten to %q although the input is truncated (only %d of the %d bytes of the header block / TLS record arrive before the stall or end)", reqAddr, avail, c.completeBy)
		} else {
			ok := false
			for _, cd := range c.cands {
				if cd.end <= len(putback) && v17IsJoin(reqAddr, cd.name, addr.port) {
					ok = true
				}
			}
			if !ok {
				var names []string
				for _, cd := range c.cands {
					if cd.end <= len(putback) {
						names = append(names, cd.name)
					}
				}
				res.violation = fmt.Sprintf("destination rewritten to %q: not (a Host/authority/SNI present in the sniffed bytes %q) + original port %s", reqAddr, names, addr.port)
			}
		}
	}
	// classification / NT
	cutIn := func(lo, hi int) bool { // a chunk boundary or stall strictly inside (lo,hi)
		for _, b := range st.bounds {
			if b > lo && b < hi {
				return true
			}
		}
		for _, p := range stallList {
			if p > lo && p < hi {
				return true
			}
		}
		return false
	}
	if cutIn(0, 3) {
		res.classes = append(res.classes, "cut-in-probe")
		res.nt = true
	}
	if strings.HasPrefix(c.kind, "tls") && cutIn(3, 5) {
		res.classes = append(res.classes, "cut-in-tls-length")
		res.nt = true
	}
	if c.completeBy > 5 && cutIn(5, c.completeBy) {
		res.classes = append(res.classes, "cut-in-block")
		res.nt = true
	}
	if len(stallList) > 0 && stallList[0] < len(sent) {
		res.classes = append(res.classes, "stall-before-end")
		res.nt = true
		if stallList[0] < 3 {
			res.classes = append(res.classes, "stall-in-probe")
		} else if c.completeBy > 0 && stallList[0] < c.completeBy {
			res.classes = append(res.classes, "stall-in-block")
		}
	}
	if strings.HasPrefix(c.kind, "http") && c.completeBy > 4096 && len(sent) > 4096 {
		res.classes = append(res.classes, "http-block>4096")
		res.nt = true
	}
	if len(putback) > 4096 {
		res.classes = append(res.classes, "putback>4096")
	}
	if len(putback) == 0 {
		res.classes = append(res.classes, "putback=0")
	}
	if len(rest) > 0 {
		res.classes = append(res.classes, "rest>0")
	}
	if st.fin {
		res.classes = append(res.classes, "fin")
	} else {
		res.classes = append(res.classes, "open")
	}
	res.fp = fmt.Sprintf("%s/%d/%d/%v/%v/%v/%v/%d", c.kind, len(sent), c.completeBy, st.bounds, stallList, st.fin, changed, len(putback))
	res.render = render()
	return res
}

func v17CheckCheck(rt *rapid.T, sn *Sniffer, udp bool, a v17Addr, ports []v17PR, cfg string) bool {
	want := v17CheckModel(a, sn.RewriteDomain, ports)
	got := sn.Check(udp, a.render)
	if got != want {
		rt.Fatalf("C17: Check(udp=%v, %q) = %v with %s; membership says %v", udp, a.render, got, cfg, want)
	}
	return got
}

func TestVerifC17_TCP(t *testing.T) {
	st := newVStats("TestVerifC17_TCP")
	defer st.Flush()
	var errReturns, unexpectedErr, streams int64
	rapid.Check(t, func(rt *rapid.T) {
		// 2–4 streams hooked by ONE Sniffer (mixed protocols); every putback is
		// held, uncopied, until all of them have been sniffed.
		nStreams := rapid.SampledFrom([]int{2, 2, 3, 3, 4}).Draw(rt, "streams")
		concurrent := rapid.IntRange(0, 3).Draw(rt, "concurrent") == 2
		var runs []*v17TCPRun
		var sn *Sniffer
		var ports []v17PR
		var cfg string
		for i := 0; i < nStreams; i++ {
			var c v17TCPCase
			switch rapid.IntRange(0, 9).Draw(rt, "family") {
			case 0, 1, 2, 3:
				c = v17GenHTTP(rt)
			case 4, 5, 6, 7:
				c = v17GenTLS(rt)
			default:
				c = v17GenOther(rt)
			}
			addr := v17GenAddr(rt)
			if i == 0 {
				sn, ports, cfg = v17GenSniffer(rt, addr, false)
			}
			bounds, stalls := v17Script(rt, len(c.sent), c.around)
			stream := &v17Stream{data: c.sent, bounds: bounds, stalls: stalls}
			stream.fin = rapid.Bool().Draw(rt, "fin")
			stream.finWithData = stream.fin && rapid.Bool().Draw(rt, "finWithData")
			stream.failFirstDeadline = rapid.IntRange(0, 199).Draw(rt, "deadlineFails") == 137
			drainBuf := rapid.SampledFrom([]int{1, 7, 1500, 32768}).Draw(rt, "drainBuf")
			if !v17CheckCheck(rt, sn, false, addr, ports, cfg) {
				// the server does not hook this request: nothing is read, nothing can be rewritten
				st.Case(false, "", []string{"not-hooked(port filter/domain)"}, func() string { return "not hooked: " + addr.render + " " + cfg })
				continue
			}
			runs = append(runs, &v17TCPRun{c: c, addr: addr, st: stream, drainBuf: drainBuf})
		}
		if concurrent && len(runs) > 1 {
			var wg sync.WaitGroup
			for _, r := range runs {
				wg.Add(1)
				go func(r *v17TCPRun) {
					defer wg.Done()
					r.sniff(sn)
				}(r)
			}
			wg.Wait()
		} else {
			for _, r := range runs {
				r.sniff(sn)
			}
		}
		mode := "sequential"
		if concurrent {
			mode = "concurrent"
		}
		var firstViolation string
		for i, r := range runs {
			res := r.eval()
			streams++
			if r.st.failFirstDeadline {
				errReturns++
			} else if r.err != nil {
				unexpectedErr++
			}
			res.classes = append(res.classes, fmt.Sprintf("streams-in-case:%d", len(runs)), "sniffed:"+mode)
			if i < len(runs)-1 && len(r.putback) > 0 {
				res.classes = append(res.classes, "putback-held-across-later-sniff")
			}
			st.Case(res.nt, res.fp, res.classes, func() string { return res.render })
			if res.violation != "" && firstViolation == "" {
				firstViolation = fmt.Sprintf("C17: stream %d of %d (%s, one Sniffer; putbacks evaluated after all Sniffer.TCP calls returned): %s\n  %s\n  sniffer{%s}",
					i+1, len(runs), mode, res.violation, res.render, cfg)
			}
		}
		if firstViolation != "" {
			rt.Fatalf("%s", firstViolation)
		}
	})
	st.Extra("streams_sniffed", streams)
	st.Extra("error_returns_with_injected_deadline_failure", errReturns)
	st.Extra("error_returns_without_injected_failure", unexpectedErr)
}

// FuzzVerifC17_TCP: bytes and chunking both come from the fuzz input.
// script: each byte is one chunk (low 7 bits + 1 = length), high bit = the
// sender stalls after that chunk. Oracle: T1, T2, port unchanged, and a
// rewritten host occurs literally in the bytes sent (whitespace-insensitive;
// skipped when the input contains '%', which URL parsing may unescape).
func FuzzVerifC17_TCP(f *testing.F) {
	f.Add([]byte("GET / HTTP/1.1\r\nHost: example.com\r\n\r\n"), []byte{2, 0x81, 5}, uint8(0))
	f.Add([]byte("GET http://abs.example.com:8080/x HTTP/1.1\r\nHost: other.example\r\n\r\nbody"), []byte{}, uint8(1))
	f.Add([]byte("POST /hello HTTP/1.1\nhost:\texample.org:81 \n\nparam=1"), []byte{0, 0, 0, 0x80}, uint8(3))
	f.Add([]byte("CONNECT target.example:443 HTTP/1.1\r\n\r\n"), []byte{10, 10}, uint8(0))
	f.Add([]byte{0x16, 3, 1, 0, 5, 1, 0, 0, 1, 0}, []byte{2, 1, 0x80}, uint8(0))
	f.Add([]byte{0x16, 3, 1, 0xff, 0xff, 1, 0, 0}, []byte{0x84}, uint8(1))
	f.Add([]byte{0x17, 3, 3}, []byte{}, uint8(0))
	f.Add([]byte("GE"), []byte{0}, uint8(1))
	f.Add([]byte{}, []byte{}, uint8(0))
	// a real ClientHello with SNI (the repo's TLS sample, rebuilt by the harness builder)
	f.Add(v17FixedTLSRecord("fuzz-seed.example.com"), []byte{2, 1, 1, 0x80, 50}, uint8(0))
	f.Fuzz(func(t *testing.T, data, script []byte, mode uint8) {
		if len(data) > 1<<19 {
			return
		}
		sent := append([]byte{}, data...)
		st := &v17Stream{data: sent, stalls: map[int]bool{}}
		pos := 0
		for _, b := range script {
			pos += int(b&0x7f) + 1
			if pos >= len(sent) {
				if b&0x80 != 0 {
					st.stalls[len(sent)] = true
				}
				break
			}
			st.bounds = append(st.bounds, pos)
			if b&0x80 != 0 {
				st.stalls[pos] = true
			}
		}
		st.fin = mode&1 != 0
		st.finWithData = mode&2 != 0 && st.fin
		orig := "203.0.113.9:443"
		port := "443"
		if mode&4 != 0 {
			orig, port = "[2001:db8::1]:8080", "8080"
		}
		sn := &Sniffer{RewriteDomain: mode&8 != 0}
		reqAddr := orig
		putback, err := sn.TCP(st, &reqAddr)
		if err != nil {
			return // the server aborts the stream; nothing is forwarded
		}
		// the server holds the putback while it dials; another hooked stream is sniffed meanwhile
		other := &v17Stream{data: v17FuzzOtherRequest, stalls: map[int]bool{}, fin: true}
		otherAddr := "203.0.113.77:80"
		if _, err := sn.TCP(other, &otherAddr); err != nil {
			t.Fatalf("C17 fuzz: second stream: %v", err)
		}
		if st.wouldHang || st.armed {
			t.Fatalf("C17 fuzz: stream left unusable (armed=%v wouldHang=%v) data=%q script=%x mode=%d", st.armed, st.wouldHang, sent, script, mode)
		}
		rest := st.drain(4096)
		if got := append(append([]byte{}, putback...), rest...); !bytes.Equal(got, sent) {
			t.Fatalf("C17 fuzz: replayed‖remaining != sent: replay=%d rest=%d sent=%d firstdiff=%d data=%q script=%x mode=%d log=%v",
				len(putback), len(rest), len(sent), v17FirstDiff(got, sent), sent, script, mode, st.log)
		}
		if reqAddr != orig {
			if !strings.HasSuffix(reqAddr, ":"+port) {
				t.Fatalf("C17 fuzz: port changed: %q -> %q data=%q", orig, reqAddr, sent)
			}
			host := strings.TrimSuffix(reqAddr, ":"+port)
			if strings.HasPrefix(host, "[") && strings.HasSuffix(host, "]") && strings.ContainsAny(host[1:len(host)-1], ":%") {
				host = host[1 : len(host)-1]
			}
			if !bytes.Contains(sent, []byte("%")) {
				strip := func(b []byte) []byte {
					return bytes.Map(func(r rune) rune {
						if r == ' ' || r == '\t' || r == '\r' || r == '\n' {
							return -1
						}
						return r
					}, b)
				}
				if !bytes.Contains(strip(putback), strip([]byte(host))) {
					t.Fatalf("C17 fuzz: destination host %q does not occur in the sniffed bytes %q", host, putback)
				}
			}
		}
	})
}

var v17FuzzOtherRequest = []byte("PUT /other-stream HTTP/1.1\r\nHost: other-stream.example\r\nX-Fill: " + strings.Repeat("#", 6000) + "\r\n\r\n" + strings.Repeat("#", 3000))

// v17FixedTLSRecord: deterministic ClientHello record with the given SNI.
func v17FixedTLSRecord(sni string) []byte {
	var body []byte
	body = append(body, 3, 3)
	body = append(body, bytes.Repeat([]byte{0xab}, 32)...)
	body = append(body, 0)
	body = append(body, 0, 2, 0x13, 0x01, 1, 0)
	list := append([]byte{0}, v17U16(nil, len(sni))...)
	list = append(list, sni...)
	ext := v17U16(nil, 0)
	ext = v17U16(ext, len(list)+2)
	ext = v17U16(ext, len(list))
	ext = append(ext, list...)
	ext = append(ext, 0, 43, 0, 3, 2, 3, 4)
	body = v17U16(body, len(ext))
	body = append(body, ext...)
	msg := append([]byte{1, 0, byte(len(body) >> 8), byte(len(body))}, body...)
	return append([]byte{0x16, 3, 1, byte(len(msg) >> 8), byte(len(msg))}, msg...)
}
