package sniff

// C17 — sniffing is transparent to the proxied flow.
//
// This file holds everything the C17 checks build their inputs and oracles
// from, written from the RFCs and the property statement, independent of the
// code under test:
//   * a scripted server.HyStream (chunks, read-deadline stalls, FIN),
//   * a TLS ClientHello builder (RFC 8446 / RFC 6066 server_name),
//   * QUIC v1/v2 Initial packet protection and un-protection (RFC 9001 §5,
//     RFC 9369 §3.3) using only std crypto + x/crypto/hkdf,
//   * an HTTP/1.x request builder,
//   * address helpers.

import (
	"bytes"
	"crypto/aes"
	"crypto/cipher"
	"crypto/sha256"
	"encoding/binary"
	"errors"
	"fmt"
	"io"
	"os"
	"sort"
	"strconv"
	"strings"
	"time"

	"github.com/apernet/hysteria/extras/v2/utils"
	"github.com/apernet/quic-go"
	"golang.org/x/crypto/hkdf"
	"pgregory.net/rapid"
)

// ---------------------------------------------------------------- stream fake

type v17TimeoutErr struct{}

func (v17TimeoutErr) Error() string   { return "v17: read deadline exceeded" }
func (v17TimeoutErr) Timeout() bool   { return true }
func (v17TimeoutErr) Temporary() bool { return true }
func (v17TimeoutErr) Is(t error) bool { return t == os.ErrDeadlineExceeded }

var v17ErrDeadlineSet = errors.New("v17: SetReadDeadline failed (stream cancelled)")

// v17Stream is a scripted server.HyStream. The client's bytes (data) arrive in
// chunks ending at `cuts`; at the offsets in `stalls` nothing more arrives
// until the armed read deadline fires: Read then returns a timeout error, and
// keeps returning it (as a QUIC stream does) until the deadline is set again;
// after that the remaining bytes can be read. Without an armed deadline a
// stall just means "the data arrives later" and is skipped. No wall clock is
// involved anywhere.
type v17Stream struct {
	data        []byte
	pos         int
	bounds      []int        // ascending chunk ends (cuts and stall offsets), all in (0,len)
	stalls      map[int]bool // offsets (0..len) at which the sender pauses
	fin         bool         // client half-closes after data
	finWithData bool         // io.EOF is returned together with the last bytes

	failFirstDeadline bool // the first SetReadDeadline call fails

	armed     bool // a non-zero read deadline is set
	expired   bool // the deadline fired; sticky until it is set again
	draining  bool // harness reads the rest (after the sniffer returned)
	wouldHang bool // a Read without deadline reached a point where nothing ever arrives
	dlCalls   int
	reads     int
	maxReq    int
	log       []string
}

func (s *v17Stream) logf(f string, a ...any) {
	if len(s.log) < 200 {
		s.log = append(s.log, fmt.Sprintf(f, a...))
	}
}

func (s *v17Stream) StreamID() quic.StreamID { return 4 }
func (s *v17Stream) Write(p []byte) (int, error) {
	s.logf("Write(%d)", len(p))
	return len(p), nil
}
func (s *v17Stream) Close() error                       { s.logf("Close"); return nil }
func (s *v17Stream) SetWriteDeadline(t time.Time) error { return nil }
func (s *v17Stream) SetDeadline(t time.Time) error {
	return s.SetReadDeadline(t)
}

func (s *v17Stream) SetReadDeadline(t time.Time) error {
	s.dlCalls++
	if s.failFirstDeadline && s.dlCalls == 1 {
		s.logf("SetReadDeadline->err")
		return v17ErrDeadlineSet
	}
	if s.expired {
		// the pause that made the deadline fire is over by the time anyone reads again
		delete(s.stalls, s.pos)
	}
	s.expired = false
	s.armed = !t.IsZero()
	s.logf("SetReadDeadline(armed=%v)", s.armed)
	return nil
}

func (s *v17Stream) Read(p []byte) (int, error) {
	s.reads++
	if len(p) > s.maxReq {
		s.maxReq = len(p)
	}
	if len(p) == 0 {
		return 0, nil
	}
	if s.expired {
		s.logf("Read->timeout(sticky)")
		return 0, v17TimeoutErr{}
	}
	if s.stalls[s.pos] {
		if s.armed {
			s.expired = true
			s.logf("Read@%d->timeout", s.pos)
			return 0, v17TimeoutErr{}
		}
		delete(s.stalls, s.pos) // no deadline: the read simply waits until the data is there
	}
	if s.pos >= len(s.data) {
		if s.fin {
			s.logf("Read@%d->EOF", s.pos)
			return 0, io.EOF
		}
		// open stream, the client sends nothing more
		if s.armed {
			s.expired = true
			s.logf("Read@%d->timeout(end)", s.pos)
			return 0, v17TimeoutErr{}
		}
		if !s.draining {
			s.wouldHang = true
		}
		return 0, v17TimeoutErr{}
	}
	end := len(s.data)
	i := sort.SearchInts(s.bounds, s.pos+1)
	if i < len(s.bounds) && s.bounds[i] < end {
		end = s.bounds[i]
	}
	n := end - s.pos
	if n > len(p) {
		n = len(p)
	}
	copy(p, s.data[s.pos:s.pos+n])
	s.pos += n
	if s.pos == len(s.data) && s.fin && s.finWithData {
		s.logf("Read->%d+EOF", n)
		return n, io.EOF
	}
	s.logf("Read->%d", n)
	return n, nil
}

// drain reads what the relay loop of the server would still get from the stream.
func (s *v17Stream) drain(bufSize int) []byte {
	s.draining = true
	var out []byte
	buf := make([]byte, bufSize)
	for i := 0; i < len(s.data)+16; i++ {
		n, err := s.Read(buf)
		out = append(out, buf[:n]...)
		if err != nil {
			break
		}
	}
	return out
}

// v17Script draws chunk boundaries and stall offsets for n bytes.
// around = offsets worth cutting at (field ends etc).
func v17Script(t *rapid.T, n int, around []int) (bounds []int, stalls map[int]bool) {
	set := map[int]bool{}
	add := func(c int) {
		if c > 0 && c < n {
			set[c] = true
		}
	}
	switch rapid.IntRange(0, 5).Draw(t, "cutMode") {
	case 0: // everything in one chunk
	case 1: // byte at a time at the start, then one chunk
		k := rapid.IntRange(1, 80).Draw(t, "bytewise")
		for i := 1; i <= k; i++ {
			add(i)
		}
	case 2: // right around the interesting offsets
		for _, a := range around {
			for d := -1; d <= 1; d++ {
				if rapid.IntRange(0, 2).Draw(t, "cutAt") > 0 {
					add(a + d)
				}
			}
		}
	case 3: // a few random cuts
		for _, c := range rapid.SliceOfN(rapid.IntRange(0, n), 0, 8).Draw(t, "cuts") {
			add(c)
		}
	case 4: // fixed-size chunks
		sz := rapid.SampledFrom([]int{1, 2, 3, 5, 16, 100, 1200, 4095, 4096, 4097}).Draw(t, "chunk")
		if n/sz > 600 {
			sz = n/600 + 1
		}
		for c := sz; c < n; c += sz {
			add(c)
		}
	case 5: // one cut inside the 5-byte prefix plus one anywhere
		add(rapid.IntRange(1, 5).Draw(t, "cutHead"))
		add(rapid.IntRange(0, n).Draw(t, "cutAny"))
	}
	stalls = map[int]bool{}
	ns := rapid.SampledFrom([]int{0, 0, 1, 1, 1, 2}).Draw(t, "nStalls")
	for i := 0; i < ns; i++ {
		var p int
		switch rapid.IntRange(0, 3).Draw(t, "stallMode") {
		case 0:
			p = rapid.IntRange(0, 5).Draw(t, "stallHead")
		case 1:
			if len(around) > 0 {
				p = rapid.SampledFrom(around).Draw(t, "stallAround") + rapid.IntRange(-1, 1).Draw(t, "stallD")
			}
		case 2:
			p = rapid.IntRange(0, n).Draw(t, "stallAny")
		case 3:
			p = n
		}
		if p < 0 {
			p = 0
		}
		if p > n {
			p = n
		}
		stalls[p] = true
		add(p)
	}
	for c := range set {
		bounds = append(bounds, c)
	}
	sort.Ints(bounds)
	return bounds, stalls
}

func v17FirstStall(stalls map[int]bool, n int) int {
	first := n + 1
	for p := range stalls {
		if p < first {
			first = p
		}
	}
	return first
}

// ---------------------------------------------------------------- addresses

// v17Join composes host and port (hosts containing ':' are bracketed).
func v17Join(host, port string) string {
	if strings.Contains(host, ":") {
		return "[" + host + "]:" + port
	}
	return host + ":" + port
}

// v17IsJoin: addr denotes exactly (host, port), bracketed or not.
func v17IsJoin(addr, host, port string) bool {
	return addr == host+":"+port || addr == "["+host+"]:"+port
}

type v17Addr struct {
	host   string // bare host (no brackets)
	port   string
	isIP   bool
	portN  int
	render string
}

func v17GenAddr(t *rapid.T) v17Addr {
	var a v17Addr
	switch rapid.IntRange(0, 5).Draw(t, "addrKind") {
	case 0, 1, 2:
		a.host = fmt.Sprintf("%d.%d.%d.%d", rapid.IntRange(1, 223).Draw(t, "ip0"), rapid.IntRange(0, 255).Draw(t, "ip1"),
			rapid.IntRange(0, 255).Draw(t, "ip2"), rapid.IntRange(1, 254).Draw(t, "ip3"))
		a.isIP = true
	case 3:
		a.host = fmt.Sprintf("2001:db8::%x:%x", rapid.IntRange(1, 0xffff).Draw(t, "v6a"), rapid.IntRange(1, 0xffff).Draw(t, "v6b"))
		a.isIP = true
	default:
		a.host = "orig-" + v17GenDomain(t, "addrDom")
	}
	a.portN = rapid.OneOf(rapid.SampledFrom([]int{80, 443, 8080, 8443, 53, 1, 65535, 0}), rapid.IntRange(0, 65535)).Draw(t, "port")
	a.port = strconv.Itoa(a.portN)
	a.render = v17Join(a.host, a.port)
	return a
}

type v17PR struct{ lo, hi int }

// v17GenSniffer draws a Sniffer configuration; the port-set models are returned
// for the independent Check oracle (nil = all ports).
func v17GenSniffer(t *rapid.T, a v17Addr, udp bool) (*Sniffer, []v17PR, string) {
	s := &Sniffer{Timeout: time.Duration(rapid.SampledFrom([]int{0, 1, 1000}).Draw(t, "timeoutMs")) * time.Millisecond}
	s.RewriteDomain = rapid.IntRange(0, 3).Draw(t, "rewriteDomain") > 0
	var model []v17PR
	desc := fmt.Sprintf("rewriteDomain=%v ports=", s.RewriteDomain)
	if rapid.IntRange(0, 2).Draw(t, "portFilter") == 0 {
		n := rapid.IntRange(1, 4).Draw(t, "nRanges")
		var parts []string
		for i := 0; i < n; i++ {
			var lo, hi int
			switch rapid.IntRange(0, 3).Draw(t, "rangeKind") {
			case 0, 1: // around the request's port so both verdicts are frequent
				lo = a.portN + rapid.IntRange(-2, 2).Draw(t, "lo")
				hi = lo + rapid.IntRange(0, 3).Draw(t, "span")
			case 2:
				lo = rapid.IntRange(0, 65535).Draw(t, "lo")
				hi = lo
			default:
				lo = rapid.IntRange(0, 65535).Draw(t, "lo")
				hi = rapid.IntRange(lo, 65535).Draw(t, "hi")
			}
			if lo < 0 {
				lo = 0
			}
			if hi < lo {
				hi = lo
			}
			if hi > 65535 {
				hi = 65535
			}
			if lo > 65535 {
				lo = 65535
			}
			model = append(model, v17PR{lo, hi})
			if lo == hi {
				parts = append(parts, strconv.Itoa(lo))
			} else {
				parts = append(parts, fmt.Sprintf("%d-%d", lo, hi))
			}
		}
		// built through the same constructor the app uses for its config strings
		pu := utils.ParsePortUnion(strings.Join(parts, ","))
		if udp {
			s.UDPPorts = pu
		} else {
			s.TCPPorts = pu
		}
		desc += strings.Join(parts, ",")
	} else {
		desc += "all"
	}
	return s, model, desc
}

// v17CheckModel is the independent expectation for Sniffer.Check on a
// well-formed host:port (membership of the port in the configured set; domains
// only when RewriteDomain).
func v17CheckModel(a v17Addr, rewriteDomain bool, ports []v17PR) bool {
	if !a.isIP && !rewriteDomain {
		return false
	}
	if ports == nil {
		return true
	}
	for _, r := range ports {
		if a.portN >= r.lo && a.portN <= r.hi {
			return true
		}
	}
	return false
}

const v17DomChars = "abcdefghijklmnopqrstuvwxyz0123456789-"

func v17GenLabel(t *rapid.T, name string, max int) string {
	n := rapid.IntRange(1, max).Draw(t, name+"Len")
	b := make([]byte, n)
	for i := range b {
		b[i] = v17DomChars[rapid.IntRange(0, len(v17DomChars)-1).Draw(t, name+"Ch")]
	}
	if b[0] == '-' {
		b[0] = 'x'
	}
	if b[n-1] == '-' {
		b[n-1] = 'y'
	}
	return string(b)
}

func v17GenDomain(t *rapid.T, name string) string {
	k := rapid.IntRange(1, 4).Draw(t, name+"Labels")
	parts := make([]string, k)
	for i := range parts {
		parts[i] = v17GenLabel(t, name, 12)
	}
	d := strings.Join(parts, ".") + "." + rapid.SampledFrom([]string{"com", "net", "io", "test", "example"}).Draw(t, name+"TLD")
	if rapid.IntRange(0, 9).Draw(t, name+"Upper") == 0 {
		d = strings.ToUpper(d[:1]) + d[1:]
	}
	return d
}

// ---------------------------------------------------------------- TLS ClientHello

type v17Span struct {
	name       string
	start, end int // byte range of the name inside the enclosing buffer
}

func v17U16(b []byte, v int) []byte { return append(b, byte(v>>8), byte(v)) }

// v17SNIKind: how the server_name extension is populated.
//
//	0 none, 1 one host_name, 2 host_name + entry of another name_type,
//	3 two host_names (ill-formed), 4 host_name with trailing dot (ill-formed), 5 odd bytes in name
func v17GenSNINames(t *rapid.T, kind int) (entries [][2]any) {
	dom := func(n string) string { return "sni-" + v17GenDomain(t, n) }
	switch kind {
	case 0:
		return nil
	case 1:
		return [][2]any{{0, dom("sni")}}
	case 2:
		if rapid.Bool().Draw(t, "otherFirst") {
			return [][2]any{{1, "othertype-" + dom("sniOther")}, {0, dom("sni")}}
		}
		return [][2]any{{0, dom("sni")}, {7, "othertype-" + dom("sniOther")}}
	case 3:
		return [][2]any{{0, dom("sni")}, {0, dom("sni2")}}
	case 4:
		return [][2]any{{0, dom("sni") + "."}}
	default:
		odd := rapid.SampledFrom([]string{"a:b", "[::1]", "::1", "10.1.2.3", "x y", "ümlaut.example", "a%25b", "UPPER.Example", "-", "a..b"}).Draw(t, "oddName")
		return [][2]any{{0, odd}}
	}
}

// v17BuildCH returns a ClientHello handshake message (type 1 + uint24 length +
// body) and the spans of every host_name (name_type 0) entry it contains.
func v17BuildCH(t *rapid.T, sniKind int) ([]byte, []v17Span, string) {
	var body []byte
	body = append(body, 0x03, byte(rapid.SampledFrom([]int{1, 3, 3, 3}).Draw(t, "chVer")))
	body = append(body, rapid.SliceOfN(rapid.Byte(), 32, 32).Draw(t, "chRandom")...)
	sid := rapid.SliceOfN(rapid.Byte(), 0, 32).Draw(t, "chSid")
	body = append(body, byte(len(sid)))
	body = append(body, sid...)
	ncs := rapid.IntRange(1, 16).Draw(t, "nSuites")
	body = v17U16(body, ncs*2)
	for i := 0; i < ncs; i++ {
		body = v17U16(body, rapid.SampledFrom([]int{0x1301, 0x1302, 0x1303, 0xc02b, 0xc02f, 0x009c, 0x5a5a}).Draw(t, "suite"))
	}
	body = append(body, 1, 0)

	type ext struct {
		typ  int
		data []byte
		// name spans relative to data
		spans []v17Span
	}
	var exts []ext
	entries := v17GenSNINames(t, sniKind)
	if entries != nil {
		var list []byte
		var spans []v17Span
		for _, e := range entries {
			nm := e[1].(string)
			list = append(list, byte(e[0].(int)))
			list = v17U16(list, len(nm))
			if e[0].(int) == 0 {
				spans = append(spans, v17Span{nm, 2 + len(list), 2 + len(list) + len(nm)})
			}
			list = append(list, nm...)
		}
		d := v17U16(nil, len(list))
		d = append(d, list...)
		exts = append(exts, ext{0, d, spans})
	}
	nExtra := rapid.IntRange(0, 5).Draw(t, "nExtraExt")
	usedTyp := map[int]bool{0: true}
	for i := 0; i < nExtra; i++ {
		k := rapid.IntRange(0, 5).Draw(t, "extKind")
		var e ext
		switch k {
		case 0: // ALPN, well formed
			e.typ = 16
			var l []byte
			for _, p := range rapid.SliceOfN(rapid.SampledFrom([]string{"h3", "h2", "http/1.1", "decoy-alpn.example.com"}), 1, 3).Draw(t, "alpn") {
				l = append(l, byte(len(p)))
				l = append(l, p...)
			}
			e.data = append(v17U16(nil, len(l)), l...)
		case 1: // supported_versions
			e.typ = 43
			e.data = []byte{2, 3, 4}
		case 2: // padding
			e.typ = 21
			e.data = make([]byte, rapid.IntRange(0, 300).Draw(t, "padLen"))
		case 3: // unknown type carrying a host-looking decoy in server_name list syntax
			e.typ = rapid.SampledFrom([]int{0x7a7a, 0x1a1a, 0x4a4a, 0xeaea, 0x1234}).Draw(t, "greaseTyp")
			nm := "decoy-ext." + v17GenDomain(t, "decoy")
			l := append([]byte{0}, v17U16(nil, len(nm))...)
			l = append(l, nm...)
			e.data = append(v17U16(nil, len(l)), l...)
		case 4: // unknown type, random bytes
			e.typ = rapid.SampledFrom([]int{0x2a2a, 0x3a3a, 0xbaba, 0x4469}).Draw(t, "unkTyp")
			e.data = rapid.SliceOfN(rapid.Byte(), 0, 40).Draw(t, "unkData")
		case 5: // big random blob (post-quantum key share sized), unknown type
			e.typ = 0xfafa
			e.data = bytes.Repeat([]byte{byte(rapid.IntRange(0, 255).Draw(t, "blobByte"))}, rapid.IntRange(200, 1300).Draw(t, "blobLen"))
		}
		if usedTyp[e.typ] {
			continue
		}
		usedTyp[e.typ] = true
		exts = append(exts, e)
	}
	if len(exts) > 1 {
		perm := rapid.Permutation(v17Iota(len(exts))).Draw(t, "extOrder")
		sh := make([]ext, len(exts))
		for i, p := range perm {
			sh[i] = exts[p]
		}
		exts = sh
	}
	var spans []v17Span
	desc := fmt.Sprintf("CH(sni=%d exts=", sniKind)
	if len(exts) > 0 || rapid.Bool().Draw(t, "emptyExtBlock") {
		var eb []byte
		for _, e := range exts {
			eb = v17U16(eb, e.typ)
			eb = v17U16(eb, len(e.data))
			base := 4 + len(body) + 2 + len(eb)
			for _, sp := range e.spans {
				spans = append(spans, v17Span{sp.name, base + sp.start, base + sp.end})
			}
			eb = append(eb, e.data...)
			desc += fmt.Sprintf("%x,", e.typ)
		}
		body = v17U16(body, len(eb))
		body = append(body, eb...)
	}
	msg := []byte{1, byte(len(body) >> 16), byte(len(body) >> 8), byte(len(body))}
	msg = append(msg, body...)
	for _, sp := range spans { // builder self-check
		if string(msg[sp.start:sp.end]) != sp.name {
			panic("v17BuildCH: span bookkeeping is wrong")
		}
	}
	return msg, spans, desc + fmt.Sprintf(" len=%d)", len(msg))
}

func v17Iota(n int) []int {
	r := make([]int, n)
	for i := range r {
		r[i] = i
	}
	return r
}

// ---------------------------------------------------------------- QUIC Initial protection (RFC 9001 §5, RFC 9369 §3.3)

const (
	v17QUICv1 = 0x00000001
	v17QUICv2 = 0x6b3343cf
)

var (
	v17SaltV1 = []byte{0x38, 0x76, 0x2c, 0xf7, 0xf5, 0x59, 0x34, 0xb3, 0x4d, 0x17, 0x9a, 0xe6, 0xa4, 0xc8, 0x0c, 0xad, 0xcc, 0xbb, 0x7f, 0x0a}
	v17SaltV2 = []byte{0x0d, 0xed, 0xe3, 0xde, 0xf7, 0x00, 0xa6, 0xdb, 0x81, 0x93, 0x81, 0xbe, 0x6e, 0x26, 0x9d, 0xcb, 0xf9, 0xbd, 0x2e, 0xd9}
)

func v17ExpandLabel(secret []byte, label string, n int) []byte {
	full := "tls13 " + label
	info := []byte{byte(n >> 8), byte(n), byte(len(full))}
	info = append(info, full...)
	info = append(info, 0)
	out := make([]byte, n)
	if _, err := io.ReadFull(hkdf.Expand(sha256.New, secret, info), out); err != nil {
		panic(err)
	}
	return out
}

type v17Keys struct {
	key, iv, hp []byte
}

func v17ClientInitialKeys(version uint32, dcid []byte) v17Keys {
	salt, pfx := v17SaltV1, "quic "
	if version == v17QUICv2 {
		salt, pfx = v17SaltV2, "quicv2 "
	}
	initial := hkdf.Extract(sha256.New, dcid, salt)
	client := v17ExpandLabel(initial, "client in", 32)
	return v17Keys{
		key: v17ExpandLabel(client, pfx+"key", 16),
		iv:  v17ExpandLabel(client, pfx+"iv", 12),
		hp:  v17ExpandLabel(client, pfx+"hp", 16),
	}
}

func (k v17Keys) aead() cipher.AEAD {
	c, err := aes.NewCipher(k.key)
	if err != nil {
		panic(err)
	}
	g, err := cipher.NewGCM(c)
	if err != nil {
		panic(err)
	}
	return g
}

func (k v17Keys) nonce(pn uint64) []byte {
	n := append([]byte{}, k.iv...)
	for i := 0; i < 8; i++ {
		n[11-i] ^= byte(pn >> (8 * i))
	}
	return n
}

func (k v17Keys) mask(sample []byte) []byte {
	c, err := aes.NewCipher(k.hp)
	if err != nil {
		panic(err)
	}
	m := make([]byte, 16)
	c.Encrypt(m, sample)
	return m
}

func v17PutVarint(b []byte, v uint64, width int) []byte {
	switch width {
	case 1:
		return append(b, byte(v))
	case 2:
		return append(b, byte(v>>8)|0x40, byte(v))
	case 4:
		return append(b, byte(v>>24)|0x80, byte(v>>16), byte(v>>8), byte(v))
	}
	return append(b, byte(v>>56)|0xc0, byte(v>>48), byte(v>>40), byte(v>>32), byte(v>>24), byte(v>>16), byte(v>>8), byte(v))
}

func v17MinWidth(v uint64) int {
	switch {
	case v <= 63:
		return 1
	case v <= 16383:
		return 2
	case v <= 1073741823:
		return 4
	}
	return 8
}

func v17GetVarint(b []byte) (uint64, int) {
	if len(b) == 0 {
		return 0, 0
	}
	n := 1 << (b[0] >> 6)
	if len(b) < n {
		return 0, 0
	}
	v := uint64(b[0] & 0x3f)
	for i := 1; i < n; i++ {
		v = v<<8 | uint64(b[i])
	}
	return v, n
}

func v17GenWidth(t *rapid.T, name string, v uint64) int {
	min := v17MinWidth(v)
	var opts []int
	for _, w := range []int{1, 2, 4, 8} {
		if w >= min {
			opts = append(opts, w)
		}
	}
	// mostly minimal
	if rapid.IntRange(0, 3).Draw(t, name+"NonMin") > 0 {
		return min
	}
	return rapid.SampledFrom(opts).Draw(t, name+"W")
}

type v17Initial struct {
	version   uint32
	dcid      []byte
	scid      []byte
	token     []byte
	tokW      int
	lenW      int
	pnLen     int
	pn        uint64
	reserved  byte // bits 0x0c of the first byte before protection (must be 0 by RFC; a sniffer need not care)
	plaintext []byte
	trailing  []byte
}

// v17Seal protects an Initial packet. Returns the datagram and the end offset
// of the protected packet (bytes after it are `trailing`).
func v17Seal(p v17Initial) ([]byte, int) {
	first := byte(0xc0)
	if p.version == v17QUICv2 {
		first |= 0x10 // Initial is type 0b01 in v2
	}
	first |= p.reserved & 0x0c
	first |= byte(p.pnLen - 1)
	hdr := []byte{first}
	hdr = binary.BigEndian.AppendUint32(hdr, p.version)
	hdr = append(hdr, byte(len(p.dcid)))
	hdr = append(hdr, p.dcid...)
	hdr = append(hdr, byte(len(p.scid)))
	hdr = append(hdr, p.scid...)
	hdr = v17PutVarint(hdr, uint64(len(p.token)), p.tokW)
	hdr = append(hdr, p.token...)
	hdr = v17PutVarint(hdr, uint64(p.pnLen+len(p.plaintext)+16), p.lenW)
	pnOff := len(hdr)
	for i := p.pnLen - 1; i >= 0; i-- {
		hdr = append(hdr, byte(p.pn>>(8*i)))
	}
	k := v17ClientInitialKeys(p.version, p.dcid)
	ct := k.aead().Seal(nil, k.nonce(p.pn), p.plaintext, hdr)
	pkt := append(append([]byte{}, hdr...), ct...)
	mask := k.mask(pkt[pnOff+4 : pnOff+20])
	pkt[0] ^= mask[0] & 0x0f
	for i := 0; i < p.pnLen; i++ {
		pkt[pnOff+i] ^= mask[1+i]
	}
	end := len(pkt)
	pkt = append(pkt, p.trailing...)
	return pkt[:len(pkt):len(pkt)], end
}

type v17CryptoFrame struct {
	off  uint64
	data []byte
}

// v17Open is the harness's own reading of a client Initial: strict RFC 9000
// long-header parse, header-protection removal and AEAD open on a private
// copy. ok=false when the datagram is not an authentic v1/v2 client Initial.
func v17Open(dgram []byte) (frames []v17CryptoFrame, plaintext []byte, ok bool) {
	b := dgram
	if len(b) < 7 || b[0]&0xc0 != 0xc0 {
		return nil, nil, false
	}
	version := binary.BigEndian.Uint32(b[1:5])
	var wantType byte
	switch version {
	case v17QUICv1:
		wantType = 0
	case v17QUICv2:
		wantType = 1
	default:
		return nil, nil, false
	}
	if (b[0]>>4)&3 != wantType {
		return nil, nil, false
	}
	off := 5
	dl := int(b[off])
	off++
	if dl > 20 || len(b) < off+dl+1 {
		return nil, nil, false
	}
	dcid := b[off : off+dl]
	off += dl
	sl := int(b[off])
	off++
	if sl > 20 || len(b) < off+sl {
		return nil, nil, false
	}
	off += sl
	tl, n := v17GetVarint(b[off:])
	if n == 0 || tl > uint64(len(b)) {
		return nil, nil, false
	}
	off += n
	if len(b) < off+int(tl) {
		return nil, nil, false
	}
	off += int(tl)
	plen, n := v17GetVarint(b[off:])
	if n == 0 || plen > uint64(len(b)) {
		return nil, nil, false
	}
	off += n
	pnOff := off
	if len(b) < pnOff+int(plen) || plen < 20 {
		return nil, nil, false
	}
	pkt := append([]byte{}, b[:pnOff+int(plen)]...)
	k := v17ClientInitialKeys(version, dcid)
	mask := k.mask(pkt[pnOff+4 : pnOff+20])
	pkt[0] ^= mask[0] & 0x0f
	pnLen := int(pkt[0]&3) + 1
	var pn uint64
	for i := 0; i < pnLen; i++ {
		pkt[pnOff+i] ^= mask[1+i]
		pn = pn<<8 | uint64(pkt[pnOff+i])
	}
	// first flight: the full packet number equals the truncated one
	pt, err := k.aead().Open(nil, k.nonce(pn), pkt[pnOff+pnLen:], pkt[:pnOff+pnLen])
	if err != nil {
		return nil, nil, false
	}
	// frames (RFC 9000 §19): PADDING, PING, CRYPTO; anything else ends the scan
	r := pt
	for len(r) > 0 {
		typ, n := v17GetVarint(r)
		if n == 0 {
			break
		}
		r = r[n:]
		if typ == 0 || typ == 1 {
			continue
		}
		if typ != 6 {
			break
		}
		o, n := v17GetVarint(r)
		if n == 0 {
			break
		}
		r = r[n:]
		l, n := v17GetVarint(r)
		if n == 0 || l > uint64(len(r)-n) {
			break
		}
		r = r[n:]
		frames = append(frames, v17CryptoFrame{o, r[:l]})
		r = r[l:]
	}
	return frames, pt, true
}

// v17NamePresent reports whether name occurs in some CRYPTO frame or in the
// crypto stream reassembled by offset (bounded).
func v17NamePresent(frames []v17CryptoFrame, name string) bool {
	if name == "" {
		return false
	}
	for _, f := range frames {
		if bytes.Contains(f.data, []byte(name)) {
			return true
		}
	}
	var end uint64
	for _, f := range frames {
		if e := f.off + uint64(len(f.data)); e > end {
			end = e
		}
	}
	if end == 0 || end > 1<<20 {
		return false
	}
	buf := make([]byte, end)
	for _, f := range frames {
		copy(buf[f.off:], f.data)
	}
	return bytes.Contains(buf, []byte(name))
}

func v17Hex(b []byte) string {
	if len(b) > 160 {
		return fmt.Sprintf("%x…(%d bytes)", b[:160], len(b))
	}
	return fmt.Sprintf("%x", b)
}

func v17Quote(b []byte) string {
	if len(b) > 240 {
		return fmt.Sprintf("%q…(%d bytes)", b[:240], len(b))
	}
	return fmt.Sprintf("%q", b)
}

// first offset at which a and b differ (or the shorter length)
func v17FirstDiff(a, b []byte) int {
	n := len(a)
	if len(b) < n {
		n = len(b)
	}
	for i := 0; i < n; i++ {
		if a[i] != b[i] {
			return i
		}
	}
	return n
}
