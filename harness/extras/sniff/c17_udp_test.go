package sniff

// C17, UDP half: Sniffer.UDP is handed the very slice the server forwards next
// (core/server/udp.go: DialFunc(firstMsg.Addr, firstMsg.Data) then
// conn.WriteTo(dfMsg.Data, ...)), so it must not write to it.
//
// Oracle:
//   U1  the datagram is byte-identical after Sniffer.UDP returns (copy taken before)
//   U2  *reqAddr is untouched, or (an SNI host_name the generator put into the
//       CRYPTO data carried by this datagram) + the original port
//   U3  datagrams built as truncated / bit-flipped inside the authenticated
//       part / unsupported version / short-header look-alike / garbage leave
//       *reqAddr untouched
// The packets are protected by the harness's own RFC 9001/9369 implementation
// (c17_build_test.go), validated against the RFC 9001 A.1 / RFC 9369 A.1 key
// vectors and the repo's captured sample in TestVerifC17_BuilderSelfCheck.

import (
	"bytes"
	"encoding/base64"
	"encoding/hex"
	"fmt"
	"sort"
	"strings"
	"testing"

	"pgregory.net/rapid"
)

// the QUIC client Initial captured in extras/sniff/sniff_test.go (SNI www.notion.so)
const v17RepoQUICSample = "ygAAAAEIwugWgPS7ulYAAES8hY891uwgGE9GG4CPOLd+nsDe28raso24lCSFmlFwYQG1uF39ikbL13/R9ZTghYmTl+jEbr6F9TxxRiOgpTmKRmh6aKZiIiVfy5pVRckovaI8lq0WRoW9xoFNTyYtQP8TVJ3bLCK+zUqpquEQSyWf7CE43ywayyMpE9UlIoPXFWCoopXLM1SvzdQ+17P51N9KR7m4emti4DWWTBLMQOvrwd2HEEkbiZdRO1wf6ZXJlIat5dN0R/6uod60OFPO+u+awvq67MoMReC7+5I/xWI+xx6o4JpnZNn6YPG8Gqi8hS6doNcAAdtD8h5eMLuHCCgkpX3QVjjfWtcOhtw9xKjU43HhUPwzUTv+JDLgwuTQCTmlfYlb3B+pk4b2I9si0tJ0SBuYaZ2VQPtZbj2hpGXw3gn11pbN8xsbKkQL50+Scd4dGJxWQlGaJHeaU5WOCkxLXc635z8m5XO/CBHVYPGp4pfwfwNUgbe5WF+3MaUIlDB8dMfsnrO0BmZPo379jVx0SFLTAiS8wAdHib1WNEY8qKYnTWuiyxYg1GZEhJt0nXmI+8f0eJq42DgHBWC+Rf5rRBr/Sf25o3mFAmTUaul0Woo9/CIrpT73B63N91xd9A77i4ru995YG8l9Hen+eLtpDU9Q9376nwMDYBzeYG9U/Rn0Urbm6q4hmAgV/xlNJ2rAyDS+yLnwqD6I0PRy8bZJEttcidb/SkOyrpgMiAzWeT+SO+c/k+Y8H0UTRa05faZUrhuUaym9wAcaIVRA6nFI+fejfjVp+7afFv+kWn3vCqQEij+CRHuxkltrixZMD2rfYj6NUW7TTYBtPRtuV/V0ZIDjRR26vr4K+0D84+l3c0mA/l6nmpP5kkco3nmpdjtQN6sGXL7+5o0nnsftX5d6/n5mLyEpP+AEDl1zk3iqkS62RsITwql6DMMoGbSDdUpMclCIeM0vlo3CkxGMO7QA9ruVeNddkL3EWMivl+uxO43sXEEqYQHVl4N75y63t05GOf7/gm9Kb/BJ8MpG9ViEkVYaskQCzi3D8bVpzo8FfTj8te8B6c3ikc/cm7r8k0ZcZpr+YiLGDYq+0ilHxpqJfmq8dPkSvxdzLcUSvy7+LMQ/TTobRSF7L4JhtDKck0+00vl9H35Tkh9N+MsVtpKdWyoqZ4XaK2Nx1M6AieczXpdFc0y7lYPoUfF4IeW8WzeVUclol5ElYjkyFz/lDOGAe1bF2g5AYaGWCPiGleVZknNdD5ihB8W8Mfkt1pEwq2S97AHrppqkf/VoIfZzeqH8wUFw8fDDrZIpnoa0rW7HfwIQaqJhPCyB9Z6TVbV4x9UWmaHfVAcinCK/7o10dtaj3rvEqcUC/iPceGq3Tqv/p9GGNJ+Ci2JBjXqNxYr893Llk75VdPD9pM6y1SM0P80oXNy32VMtafkFFST8GpvvqWcxUJ93kzaY8RmU1g3XFOImSU2utU6+FUQ2Pn5uLwcfT2cTYfTpPGh+WXjSbZ6trqdEMEsLHybuPo2UN4WpVLXVQma3kSaHQggcLlEip8GhEUAy/xCb2eKqhI4HkDpDjwDnDVKufWlnRaOHf58cc8Woi+WT8JTOkHC+nBEG6fKRPHDG08U5yayIQIjI"

func v17RepoSample() []byte {
	b, err := base64.StdEncoding.DecodeString(v17RepoQUICSample)
	if err != nil {
		return nil
	}
	return b
}

var v17FuzzOtherDgram = v17RepoSample()

type v17UDPCase struct {
	class     string
	dgram     []byte
	orig      []byte   // private copy for rendering
	cands     []string // SNI host_names whose bytes are carried by this datagram
	mustStay  bool     // U3
	validQUIC bool
	desc      string
	fp        string
}

func v17GenInitial(t *rapid.T) (v17Initial, []string, string) {
	var p v17Initial
	p.version = rapid.SampledFrom([]uint32{v17QUICv1, v17QUICv1, v17QUICv2}).Draw(t, "version")
	p.dcid = rapid.SliceOfN(rapid.Byte(), rapid.SampledFrom([]int{0, 1, 8, 8, 8, 16, 20}).Draw(t, "dcidMin"), 20).Draw(t, "dcid")
	p.scid = rapid.SliceOfN(rapid.Byte(), 0, 20).Draw(t, "scid")
	p.token = rapid.SliceOfN(rapid.Byte(), 0, rapid.SampledFrom([]int{0, 0, 0, 16, 70}).Draw(t, "tokMax")).Draw(t, "token")
	p.tokW = v17GenWidth(t, "tok", uint64(len(p.token)))
	p.pnLen = rapid.IntRange(1, 4).Draw(t, "pnLen")
	p.pn = uint64(rapid.Uint32().Draw(t, "pn")) & (1<<(8*uint(p.pnLen)) - 1)
	if rapid.IntRange(0, 2).Draw(t, "smallPN") > 0 {
		p.pn = uint64(rapid.IntRange(0, 3).Draw(t, "pnSmall"))
	}
	if rapid.IntRange(0, 15).Draw(t, "reservedBits") == 11 {
		p.reserved = byte(rapid.IntRange(1, 3).Draw(t, "reserved")) << 2
	}
	sniKind := rapid.SampledFrom([]int{0, 1, 1, 1, 1, 1, 1, 2, 3, 4, 5}).Draw(t, "sniKind")
	ch, spans, chDesc := v17BuildCH(t, sniKind)

	// CRYPTO frames: pieces of the ClientHello by source range
	type piece struct{ a, b int }
	var pieces []piece
	layout := rapid.SampledFrom([]string{"full", "full", "full", "full", "gap", "prefix", "dup", "shifted"}).Draw(t, "layout")
	k := rapid.IntRange(1, 3).Draw(t, "nFrames")
	cutsAt := []int{0}
	for i := 1; i < k; i++ {
		cutsAt = append(cutsAt, rapid.IntRange(1, len(ch)-1).Draw(t, "frameCut"))
	}
	cutsAt = append(cutsAt, len(ch))
	sort.Ints(cutsAt)
	for i := 0; i+1 < len(cutsAt); i++ {
		if cutsAt[i] < cutsAt[i+1] {
			pieces = append(pieces, piece{cutsAt[i], cutsAt[i+1]})
		}
	}
	offShift := 0
	switch layout {
	case "gap":
		if len(pieces) >= 2 {
			i := rapid.IntRange(0, len(pieces)-1).Draw(t, "dropPiece")
			pieces = append(pieces[:i:i], pieces[i+1:]...)
		} else {
			pieces[0].b = pieces[0].a + (pieces[0].b-pieces[0].a)/2
			pieces = append(pieces, piece{pieces[0].b + 1, len(ch)})
		}
	case "prefix":
		end := rapid.IntRange(1, len(ch)-1).Draw(t, "prefixEnd")
		var np []piece
		for _, pc := range pieces {
			if pc.a >= end {
				continue
			}
			if pc.b > end {
				pc.b = end
			}
			np = append(np, pc)
		}
		pieces = np
	case "dup":
		pieces = append(pieces, pieces[rapid.IntRange(0, len(pieces)-1).Draw(t, "dupPiece")])
	case "shifted":
		offShift = rapid.SampledFrom([]int{1, 100, 16384}).Draw(t, "offShift")
	}
	if len(pieces) > 1 {
		perm := rapid.Permutation(v17Iota(len(pieces))).Draw(t, "frameOrder")
		np := make([]piece, len(pieces))
		for i, j := range perm {
			np[i] = pieces[j]
		}
		pieces = np
	}
	covered := make([]bool, len(ch))
	var pl []byte
	filler := func() {
		switch rapid.IntRange(0, 4).Draw(t, "filler") {
		case 1:
			pl = append(pl, make([]byte, rapid.IntRange(1, 40).Draw(t, "padRun"))...)
		case 2:
			pl = append(pl, 1)
		case 3:
			pl = append(pl, 1, 0, 0, 1)
		}
	}
	filler()
	for _, pc := range pieces {
		for i := pc.a; i < pc.b; i++ {
			covered[i] = true
		}
		pl = append(pl, 6)
		pl = v17PutVarint(pl, uint64(pc.a+offShift), v17GenWidth(t, "foff", uint64(pc.a+offShift)))
		pl = v17PutVarint(pl, uint64(pc.b-pc.a), v17GenWidth(t, "flen", uint64(pc.b-pc.a)))
		pl = append(pl, ch[pc.a:pc.b]...)
		filler()
	}
	if rapid.IntRange(0, 19).Draw(t, "ackFrame") == 13 {
		pl = append(pl, 2, 0, 0, 0, 0) // ACK: legal in Initial packets, nothing a first flight carries
		layout += "+ack"
	}
	// pad the way clients do (datagram >= 1200), inside or outside the packet
	target := rapid.SampledFrom([]int{0, 1200, 1200, 1200, 1252, 1350, 1472}).Draw(t, "target")
	padInside := rapid.IntRange(0, 3).Draw(t, "padInside") > 0
	hdrGuess := 1 + 4 + 1 + len(p.dcid) + 1 + len(p.scid) + p.tokW + len(p.token) + 2 + p.pnLen + 16
	if need := target - hdrGuess - len(pl); need > 0 {
		if padInside {
			pl = append(pl, make([]byte, need)...)
		} else {
			switch rapid.IntRange(0, 2).Draw(t, "trailKind") {
			case 0:
				p.trailing = make([]byte, need)
			case 1:
				p.trailing = bytes.Repeat([]byte{0xe5}, need) // looks like a coalesced long-header packet
			case 2:
				p.trailing = rapid.SliceOfN(rapid.Byte(), 1, 64).Draw(t, "trail")
			}
		}
	}
	if len(pl) < 4 {
		pl = append(pl, 0, 0, 0, 0)
	}
	p.plaintext = pl
	p.lenW = v17GenWidth(t, "len", uint64(p.pnLen+len(pl)+16))
	if p.lenW == 1 && rapid.Bool().Draw(t, "len2") {
		p.lenW = 2
	}
	var cands []string
	for _, sp := range spans {
		all := true
		for i := sp.start; i < sp.end; i++ {
			if !covered[i] {
				all = false
			}
		}
		if all {
			cands = append(cands, sp.name)
		}
	}
	desc := fmt.Sprintf("Initial v=%#x dcid=%d scid=%d token=%d/w%d lenW=%d pnLen=%d pn=%d reserved=%#x layout=%s frames=%d plaintext=%d trailing=%d %s",
		p.version, len(p.dcid), len(p.scid), len(p.token), p.tokW, p.lenW, p.pnLen, p.pn, p.reserved, layout, len(pieces), len(pl), len(p.trailing), chDesc)
	fp := fmt.Sprintf("%x/%d/%d/%d/%d/%d/%s/%v/%d/%d", p.version, len(p.dcid), len(p.scid), len(p.token), p.lenW, p.pnLen, layout, pieces, len(pl), len(p.trailing))
	return p, cands, desc + "|" + fp
}

func v17GenUDP(t *rapid.T) v17UDPCase {
	var c v17UDPCase
	fam := rapid.IntRange(0, 11).Draw(t, "family")
	switch {
	case fam <= 8:
		p, cands, desc := v17GenInitial(t)
		parts := strings.SplitN(desc, "|", 2)
		desc, c.fp = parts[0], parts[1]
		pkt, end := v17Seal(p)
		// harness self-check: what was built must open with the harness's own reader
		if _, pt, ok := v17Open(pkt); !ok || !bytes.Equal(pt, p.plaintext) {
			vInconclusive("C17 harness bug: v17Open cannot open what v17Seal built: " + desc + " " + v17Hex(pkt))
		}
		c.class, c.cands, c.validQUIC = "quic-valid", cands, true
		switch fam {
		case 5: // truncated anywhere inside the protected packet
			k := rapid.IntRange(0, end-1).Draw(t, "truncAt")
			pkt = pkt[:k:k]
			c.class, c.cands, c.mustStay, c.validQUIC = "quic-truncated", nil, true, false
			desc += fmt.Sprintf(" truncated@%d", k)
		case 6: // one bit flipped inside the authenticated part
			i := rapid.IntRange(0, end-1).Draw(t, "flipAt")
			if rapid.IntRange(0, 2).Draw(t, "flipInHeader") == 0 {
				i = rapid.IntRange(0, min(end-1, 40)).Draw(t, "flipHdrAt")
			}
			bit := byte(1) << rapid.IntRange(0, 7).Draw(t, "flipBit")
			pkt[i] ^= bit
			c.class, c.cands, c.mustStay, c.validQUIC = "quic-bitflip", nil, true, false
			desc += fmt.Sprintf(" flip@%d^%#x", i, bit)
		case 7: // unsupported version with otherwise identical bytes, or header-form bit cleared
			switch rapid.IntRange(0, 2).Draw(t, "mangle") {
			case 0:
				copy(pkt[1:5], rapid.SampledFrom([][]byte{{0, 0, 0, 0}, {0xff, 0, 0, 0x1d}, {0, 0, 0, 2}, {0x6b, 0x33, 0x43, 0xce}, {0x51, 0x30, 0x35, 0x30}}).Draw(t, "badVersion"))
				c.class = "quic-badversion"
			case 1:
				pkt[0] &^= 0x80
				c.class = "quic-shortform"
			case 2:
				pkt[0] &^= 0x40
				c.class = "quic-nofixedbit"
			}
			c.cands, c.mustStay, c.validQUIC = nil, true, false
		}
		c.dgram = pkt
		c.desc = desc
		c.fp = c.class + "/" + c.fp
	case fam == 9: // short-header look-alike (0x40..0x7f), some with a version-1 field behind it
		b := rapid.SliceOfN(rapid.Byte(), 0, 200).Draw(t, "short")
		b = append([]byte{0x40 | byte(rapid.IntRange(0, 0x3f).Draw(t, "shortBits"))}, b...)
		if len(b) >= 5 && rapid.Bool().Draw(t, "v1Behind") {
			copy(b[1:5], []byte{0, 0, 0, 1})
			if len(b) > 7 {
				b[5] = byte(rapid.IntRange(0, 3).Draw(t, "dcidLen"))
			}
		}
		c.class, c.dgram, c.mustStay = "short-lookalike", b, true
		c.desc = "short-header look-alike " + v17Hex(b)
		c.fp = fmt.Sprintf("short/%x", b[:min(len(b), 12)])
	case fam == 10: // long header with valid-looking fields and random body (never authentic)
		var b []byte
		b = append(b, 0xc0|byte(rapid.IntRange(0, 0x3f).Draw(t, "lhBits")))
		b = append(b, rapid.SampledFrom([][]byte{{0, 0, 0, 1}, {0x6b, 0x33, 0x43, 0xcf}}).Draw(t, "lhVer")...)
		d := rapid.SliceOfN(rapid.Byte(), 0, 20).Draw(t, "lhDcid")
		b = append(b, byte(len(d)))
		b = append(b, d...)
		b = append(b, 0, 0)
		body := rapid.SliceOfN(rapid.Byte(), 0, 300).Draw(t, "lhBody")
		b = v17PutVarint(b, uint64(len(body)+rapid.IntRange(-2, 2).Draw(t, "lhLenDelta")+2)&0x3fff, 2)
		b = append(b, body...)
		c.class, c.dgram, c.mustStay = "long-garbage", b, true
		c.desc = "long header + random body " + v17Hex(b)
		c.fp = fmt.Sprintf("lg/%d/%d/%x", len(d), len(body), b[0])
	default:
		b := rapid.SliceOfN(rapid.Byte(), 0, 1500).Draw(t, "garbage")
		if len(b) > 0 && rapid.IntRange(0, 3).Draw(t, "text") == 0 {
			b = []byte(rapid.SampledFrom([]string{"oh my sweet summer child", "\x00\x01\x00\x00\x21\x12\xa4\x42stun-like.example.com", "GET / HTTP/1.1\r\nHost: decoy-udp.example.com\r\n\r\n"}).Draw(t, "udpText"))
		}
		if len(b) >= 5 && b[0]&0x80 != 0 {
			b[1] ^= 0x55 // keep random long-header bytes off the two supported versions
			if b[1] == 0 || b[1] == 0x6b {
				b[1] = 0x77
			}
		}
		c.class, c.dgram, c.mustStay = "garbage", b, true
		c.desc = "garbage " + v17Hex(b)
		c.fp = fmt.Sprintf("g/%d/%x", len(b), b[:min(len(b), 6)])
	}
	c.dgram = c.dgram[:len(c.dgram):len(c.dgram)]
	c.orig = append([]byte{}, c.dgram...)
	return c
}

// v17EvalUDP applies U1–U3 to one datagram after Sniffer.UDP(c.dgram, &reqAddr)
// returned (reqAddr, err). c.orig is the private copy taken before the call.
// It is called only after every datagram of the case has been sniffed, while
// the earlier data slices were still held (as the server holds them until the
// target is dialled and the packet written).
func v17EvalUDP(c v17UDPCase, addr v17Addr, reqAddr string, err error) (violation string, changed bool, _ error) {
	before := c.orig
	if !bytes.Equal(before, c.dgram) {
		nd, first := 0, -1
		for i := range before {
			if before[i] != c.dgram[i] {
				nd++
				if first < 0 {
					first = i
				}
			}
		}
		return fmt.Sprintf("Sniffer.UDP modified the datagram the server forwards next: %d of %d bytes differ, first at offset %d (before %s, after %s)",
			nd, len(before), first, v17Hex(before[first:]), v17Hex(c.dgram[first:])), reqAddr != addr.render, err
	}
	changed = reqAddr != addr.render
	if err != nil {
		return "", changed, err // the server refuses the session: nothing is forwarded
	}
	if changed {
		if c.mustStay {
			return fmt.Sprintf("destination rewritten to %q for a datagram built as %s (not an authentic, complete client Initial)", reqAddr, c.class), changed, nil
		}
		ok := false
		for _, n := range c.cands {
			if v17IsJoin(reqAddr, n, addr.port) {
				ok = true
			}
		}
		if !ok {
			return fmt.Sprintf("destination rewritten to %q: not (an SNI host_name carried by the datagram %q) + original port %s", reqAddr, c.cands, addr.port), changed, nil
		}
	}
	return "", changed, nil
}

func TestVerifC17_UDP(t *testing.T) {
	st := newVStats("TestVerifC17_UDP")
	defer st.Flush()
	var errReturns int64
	rapid.Check(t, func(rt *rapid.T) {
		// 1–3 first datagrams (of different sessions) hooked by ONE Sniffer; the
		// data slices of earlier ones are held while later ones are sniffed.
		n := rapid.SampledFrom([]int{1, 2, 2, 3}).Draw(rt, "datagrams")
		type run struct {
			c       v17UDPCase
			addr    v17Addr
			reqAddr string
			err     error
		}
		var runs []*run
		var sn *Sniffer
		var ports []v17PR
		var cfg string
		for i := 0; i < n; i++ {
			c := v17GenUDP(rt)
			addr := v17GenAddr(rt)
			if i == 0 {
				sn, ports, cfg = v17GenSniffer(rt, addr, true)
			}
			if !v17CheckCheck(rt, sn, true, addr, ports, cfg) {
				st.Case(false, "", []string{"not-hooked(port filter/domain)"}, func() string { return "not hooked: " + addr.render + " " + cfg })
				continue
			}
			runs = append(runs, &run{c: c, addr: addr})
		}
		for _, r := range runs {
			r.reqAddr = r.addr.render
			r.err = sn.UDP(r.c.dgram, &r.reqAddr)
		}
		for i, r := range runs {
			c, addr := r.c, r.addr
			violation, changed, err := v17EvalUDP(c, addr, r.reqAddr, r.err)
			classes := []string{"class:" + c.class, fmt.Sprintf("datagrams-in-case:%d", len(runs))}
			if changed {
				classes = append(classes, "rewritten")
			} else {
				classes = append(classes, "unchanged")
			}
			if err != nil {
				errReturns++
				classes = append(classes, "error-return(no claim on address)")
			}
			render := func() string {
				return fmt.Sprintf("datagram %d of %d: %s addr=%s sniffer{%s} changed=%v err=%v dgram(%d)=%s", i+1, len(runs), c.desc, addr.render, cfg, changed, err, len(c.orig), v17Hex(c.orig))
			}
			st.Case(c.validQUIC, c.fp, classes, render)
			if violation != "" {
				rt.Fatalf("C17: %s\n  %s", violation, render())
			}
		}
	})
	st.Extra("error_returns", errReturns)
}

// Library-free regression for the defect repaired by fix commit 255e48d: the
// repo's own captured QUIC Initial must come back from Sniffer.UDP unchanged.
func TestVerifC17_Regress_QUICSampleUnchanged(t *testing.T) {
	st := newVStats("TestVerifC17_Regress_QUICSampleUnchanged")
	defer st.Flush()
	pkt := v17RepoSample()
	if pkt == nil {
		vInconclusive("C17: cannot decode the repo's QUIC sample")
	}
	for _, rewriteDomain := range []bool{false, true} {
		for _, capEqLen := range []bool{true, false} {
			data := append([]byte{}, pkt...)
			if capEqLen {
				data = data[:len(data):len(data)]
			} else {
				data = append(make([]byte, 0, len(data)+64), data...)
			}
			before := append([]byte{}, data...)
			sn := &Sniffer{RewriteDomain: rewriteDomain}
			reqAddr := "2.3.4.5:443"
			if !sn.Check(true, reqAddr) {
				t.Fatalf("C17: Check(udp, %q) = false with no port filter", reqAddr)
			}
			err := sn.UDP(data, &reqAddr)
			st.Case(true, fmt.Sprintf("%v/%v", rewriteDomain, capEqLen), []string{"repo-sample"}, func() string {
				return fmt.Sprintf("repo QUIC sample (%d bytes) -> %s err=%v", len(data), reqAddr, err)
			})
			if !bytes.Equal(before, data) {
				nd := 0
				for i := range before {
					if before[i] != data[i] {
						nd++
					}
				}
				t.Fatalf("C17: Sniffer.UDP modified the first datagram in place: %d of %d bytes of the repo's own QUIC sample differ, first at offset %d; the server forwards this slice to the target",
					nd, len(before), v17FirstDiff(before, data))
			}
			if err != nil {
				continue
			}
			if reqAddr != "2.3.4.5:443" && reqAddr != "www.notion.so:443" {
				t.Fatalf("C17: destination rewritten to %q; the sample's SNI is www.notion.so and the port was 443", reqAddr)
			}
		}
	}
}

// Validates the harness's own QUIC/TLS machinery (not the code under test):
// RFC 9001 A.1 and RFC 9369 A.1 client key vectors, and that v17Open reads the
// repo's captured sample down to its SNI. A failure here is a harness defect.
func TestVerifC17_BuilderSelfCheck(t *testing.T) {
	st := newVStats("TestVerifC17_BuilderSelfCheck")
	defer st.Flush()
	dcid, _ := hex.DecodeString("8394c8f03e515708")
	for _, v := range []struct {
		ver         uint32
		key, iv, hp string
	}{
		{v17QUICv1, "1f369613dd76d5467730efcbe3b1a22d", "fa044b2f42a3fd3b46fb255c", "9f50449e04a0e810283a1e9933adedd2"},
		{v17QUICv2, "8b1a0bc121284290a29e0971b5cd045d", "91f73e2351d8fa91660e909f", "45b95e15235d6f45a6b19cbcb0294ba9"},
	} {
		k := v17ClientInitialKeys(v.ver, dcid)
		if hex.EncodeToString(k.key) != v.key || hex.EncodeToString(k.iv) != v.iv || hex.EncodeToString(k.hp) != v.hp {
			vInconclusive(fmt.Sprintf("C17 harness bug: initial keys for version %#x are key=%x iv=%x hp=%x, RFC vector says %s %s %s", v.ver, k.key, k.iv, k.hp, v.key, v.iv, v.hp))
		}
		st.Case(true, fmt.Sprintf("keys/%x", v.ver), []string{"rfc-key-vector"}, func() string { return fmt.Sprintf("RFC A.1 keys v=%#x ok", v.ver) })
	}
	pkt := v17RepoSample()
	frames, _, ok := v17Open(pkt)
	if !ok || !v17NamePresent(frames, "www.notion.so") {
		vInconclusive(fmt.Sprintf("C17 harness bug: v17Open cannot read the repo's QUIC sample (ok=%v frames=%d)", ok, len(frames)))
	}
	st.Case(true, "sample", []string{"repo-sample-opened"}, func() string { return fmt.Sprintf("repo sample: %d CRYPTO frames, SNI found", len(frames)) })
	// a round trip through the builder with a fixed ClientHello, both versions, all pn lengths
	rec := v17FixedTLSRecord("selfcheck.example.org")
	ch := rec[5:]
	for _, ver := range []uint32{v17QUICv1, v17QUICv2} {
		for pnLen := 1; pnLen <= 4; pnLen++ {
			pl := append([]byte{6, 0}, v17PutVarint(nil, uint64(len(ch)), 2)...)
			pl = append(pl, ch...)
			pl = append(pl, make([]byte, 1100)...)
			p := v17Initial{version: ver, dcid: dcid, tokW: 1, lenW: 2, pnLen: pnLen, pn: uint64(pnLen), plaintext: pl}
			d, _ := v17Seal(p)
			fr, pt, ok := v17Open(d)
			if !ok || !bytes.Equal(pt, pl) || !v17NamePresent(fr, "selfcheck.example.org") {
				vInconclusive(fmt.Sprintf("C17 harness bug: seal/open round trip failed v=%#x pnLen=%d", ver, pnLen))
			}
			st.Case(true, fmt.Sprintf("rt/%x/%d", ver, pnLen), []string{"seal-open-roundtrip"}, nil)
		}
	}
}

// FuzzVerifC17_UDP: U1 on arbitrary datagrams; and a rewrite is accepted only
// if the harness's own reader authenticates the datagram as a client Initial
// whose CRYPTO data contains the new host, with the port unchanged.
func FuzzVerifC17_UDP(f *testing.F) {
	if s := v17RepoSample(); s != nil {
		f.Add(s)
		f.Add(s[:len(s)-1])
		f.Add(s[:64])
	}
	rec := v17FixedTLSRecord("fuzz-udp.example.net")
	ch := rec[5:]
	dcid := []byte{1, 2, 3, 4, 5, 6, 7, 8}
	for _, ver := range []uint32{v17QUICv1, v17QUICv2} {
		for _, pnLen := range []int{1, 4} {
			half := len(ch) / 2
			pl := []byte{1, 6}
			pl = v17PutVarint(pl, uint64(half), 2)
			pl = v17PutVarint(pl, uint64(len(ch)-half), 1)
			pl = append(pl, ch[half:]...)
			pl = append(pl, 0, 0, 6, 0)
			pl = v17PutVarint(pl, uint64(half), 1)
			pl = append(pl, ch[:half]...)
			pl = append(pl, make([]byte, 40)...)
			d, _ := v17Seal(v17Initial{version: ver, dcid: dcid, scid: []byte{9}, token: []byte{7, 7}, tokW: 1, lenW: 2, pnLen: pnLen, pn: 1, plaintext: pl, trailing: []byte{0, 0, 0}})
			f.Add(d)
		}
	}
	f.Add([]byte{0x40, 0, 0, 0, 1, 0, 0, 0, 1, 0xaa})
	f.Add([]byte{0xc0, 0, 0, 0, 1, 0, 0, 0, 0x40, 0x20})
	f.Add([]byte("oh my sweet summer child"))
	f.Add([]byte{})
	f.Fuzz(func(t *testing.T, in []byte) {
		data := append(make([]byte, 0, len(in)), in...)
		data = data[:len(data):len(data)]
		before := append([]byte{}, data...)
		sn := &Sniffer{}
		orig := "198.51.100.7:443"
		reqAddr := orig
		err := sn.UDP(data, &reqAddr)
		// the slice is still held by the server while another session's first datagram is sniffed
		if v17FuzzOtherDgram != nil {
			otherAddr := "198.51.100.8:443"
			_ = sn.UDP(append([]byte{}, v17FuzzOtherDgram...), &otherAddr)
		}
		if !bytes.Equal(before, data) {
			t.Fatalf("C17 fuzz: Sniffer.UDP modified the datagram: first difference at offset %d of %d; input %s", v17FirstDiff(before, data), len(before), v17Hex(before))
		}
		if err != nil || reqAddr == orig {
			return
		}
		if !strings.HasSuffix(reqAddr, ":443") {
			t.Fatalf("C17 fuzz: port changed: %q -> %q; input %s", orig, reqAddr, v17Hex(before))
		}
		host := strings.TrimSuffix(reqAddr, ":443")
		frames, _, ok := v17Open(before)
		if !ok {
			t.Fatalf("C17 fuzz: destination rewritten to %q from a datagram that is not an authentic v1/v2 client Initial; input %s", reqAddr, v17Hex(before))
		}
		if !v17NamePresent(frames, host) && !(strings.HasPrefix(host, "[") && strings.HasSuffix(host, "]") && v17NamePresent(frames, host[1:len(host)-1])) {
			t.Fatalf("C17 fuzz: destination host %q does not occur in the CRYPTO data of the datagram; input %s", host, v17Hex(before))
		}
	})
}
