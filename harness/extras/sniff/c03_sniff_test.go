package sniff

// C03 — peer-controlled bytes never crash the process (protocol sniffer).
//
// Entry points, called the way core/server does: for a TCP request
// `if hook.Check(false, reqAddr) { hook.TCP(stream, &reqAddr) }` with the client's
// stream (arbitrary chunking, ends with EOF / a deadline error), for the first UDP
// message of a session `if hook.Check(true, reqAddr) { hook.UDP(data, &reqAddr) }`
// with data = payload slice of a QUIC datagram (cap == len).
//
// Oracle: no panic; the call returns; afterwards the repo's own HTTP / TLS / QUIC
// vectors are still sniffed to the expected host (service continues).

import (
	"encoding/base64"
	"errors"
	"fmt"
	"io"
	"os"
	"strings"
	"testing"
	"time"

	"github.com/apernet/quic-go"
	"pgregory.net/rapid"

	quicInternal "github.com/apernet/hysteria/extras/v2/sniff/internal/quic"
)

// classification only: what the QUIC layer makes of the same bytes
func v03QuicRead(b []byte) (pl []byte, err error) {
	err = errors.New("panicked")
	v03Guard(func() { pl, err = quicInternal.ReadCryptoPayload(v03Tight(b)) })
	return pl, err
}

const v03TLSVector = "FgMBARcBAAETAwPJL2jlt1OAo+Rslkjv/aqKiTthKMaCKg2Gvd+uALDbDCDdY+UIk8ouadEB9fC3j52Y1i7SJZqGIgBRIS6kKieYrAAoEwITAcAswCvAMMAvwCTAI8AowCfACsAJwBTAEwCdAJwAPQA8ADUALwEAAKIAAAAOAAwAAAlpcGluZm8uaW8ABQAFAQAAAAAAKwAJCAMEAwMDAgMBAA0AGgAYCAQIBQgGBAEFAQIBBAMFAwIDAgIGAQYDACMAAAAKAAgABgAdABcAGAAQAAsACQhodHRwLzEuMQAzACYAJAAdACBguQbqNJNyamYxYcrBFpBP7pWv5TgZsP9gwGtMYNKVBQAxAAAAFwAA/wEAAQAALQACAQE="

const v03QUICVector = "ygAAAAEIwugWgPS7ulYAAES8hY891uwgGE9GG4CPOLd+nsDe28raso24lCSFmlFwYQG1uF39ikbL13/R9ZTghYmTl+jEbr6F9TxxRiOgpTmKRmh6aKZiIiVfy5pVRckovaI8lq0WRoW9xoFNTyYtQP8TVJ3bLCK+zUqpquEQSyWf7CE43ywayyMpE9UlIoPXFWCoopXLM1SvzdQ+17P51N9KR7m4emti4DWWTBLMQOvrwd2HEEkbiZdRO1wf6ZXJlIat5dN0R/6uod60OFPO+u+awvq67MoMReC7+5I/xWI+xx6o4JpnZNn6YPG8Gqi8hS6doNcAAdtD8h5eMLuHCCgkpX3QVjjfWtcOhtw9xKjU43HhUPwzUTv+JDLgwuTQCTmlfYlb3B+pk4b2I9si0tJ0SBuYaZ2VQPtZbj2hpGXw3gn11pbN8xsbKkQL50+Scd4dGJxWQlGaJHeaU5WOCkxLXc635z8m5XO/CBHVYPGp4pfwfwNUgbe5WF+3MaUIlDB8dMfsnrO0BmZPo379jVx0SFLTAiS8wAdHib1WNEY8qKYnTWuiyxYg1GZEhJt0nXmI+8f0eJq42DgHBWC+Rf5rRBr/Sf25o3mFAmTUaul0Woo9/CIrpT73B63N91xd9A77i4ru995YG8l9Hen+eLtpDU9Q9376nwMDYBzeYG9U/Rn0Urbm6q4hmAgV/xlNJ2rAyDS+yLnwqD6I0PRy8bZJEttcidb/SkOyrpgMiAzWeT+SO+c/k+Y8H0UTRa05faZUrhuUaym9wAcaIVRA6nFI+fejfjVp+7afFv+kWn3vCqQEij+CRHuxkltrixZMD2rfYj6NUW7TTYBtPRtuV/V0ZIDjRR26vr4K+0D84+l3c0mA/l6nmpP5kkco3nmpdjtQN6sGXL7+5o0nnsftX5d6/n5mLyEpP+AEDl1zk3iqkS62RsITwql6DMMoGbSDdUpMclCIeM0vlo3CkxGMO7QA9ruVeNddkL3EWMivl+uxO43sXEEqYQHVl4N75y63t05GOf7/gm9Kb/BJ8MpG9ViEkVYaskQCzi3D8bVpzo8FfTj8te8B6c3ikc/cm7r8k0ZcZpr+YiLGDYq+0ilHxpqJfmq8dPkSvxdzLcUSvy7+LMQ/TTobRSF7L4JhtDKck0+00vl9H35Tkh9N+MsVtpKdWyoqZ4XaK2Nx1M6AieczXpdFc0y7lYPoUfF4IeW8WzeVUclol5ElYjkyFz/lDOGAe1bF2g5AYaGWCPiGleVZknNdD5ihB8W8Mfkt1pEwq2S97AHrppqkf/VoIfZzeqH8wUFw8fDDrZIpnoa0rW7HfwIQaqJhPCyB9Z6TVbV4x9UWmaHfVAcinCK/7o10dtaj3rvEqcUC/iPceGq3Tqv/p9GGNJ+Ci2JBjXqNxYr893Llk75VdPD9pM6y1SM0P80oXNy32VMtafkFFST8GpvvqWcxUJ93kzaY8RmU1g3XFOImSU2utU6+FUQ2Pn5uLwcfT2cTYfTpPGh+WXjSbZ6trqdEMEsLHybuPo2UN4WpVLXVQma3kSaHQggcLlEip8GhEUAy/xCb2eKqhI4HkDpDjwDnDVKufWlnRaOHf58cc8Woi+WT8JTOkHC+nBEG6fKRPHDG08U5yayIQIjI"

func v03B64(s string) []byte {
	b, err := base64.StdEncoding.DecodeString(s)
	if err != nil {
		panic(err)
	}
	return b
}

// ---- scripted stream ----

type v03Stream struct {
	data       []byte
	pos        int
	chunk      int
	endErr     error
	deadlineEr error
	reads      int
}

func (s *v03Stream) StreamID() quic.StreamID { return 4 }
func (s *v03Stream) Read(p []byte) (int, error) {
	s.reads++
	if s.pos >= len(s.data) {
		return 0, s.endErr
	}
	if len(p) == 0 {
		return 0, nil
	}
	n := min(len(s.data)-s.pos, len(p), s.chunk)
	copy(p, s.data[s.pos:s.pos+n])
	s.pos += n
	return n, nil
}
func (s *v03Stream) Write(p []byte) (int, error)        { return len(p), nil }
func (s *v03Stream) Close() error                       { return nil }
func (s *v03Stream) SetReadDeadline(t time.Time) error  { return s.deadlineEr }
func (s *v03Stream) SetWriteDeadline(t time.Time) error { return nil }
func (s *v03Stream) SetDeadline(t time.Time) error      { return nil }

var v03ErrDeadlineSet = errors.New("v03: stream already cancelled")

// ---- running ----

func v03ProbeTCP() error {
	h := &Sniffer{}
	addr := "222.222.222.222:443"
	if _, err := h.TCP(&v03Stream{data: v03B64(v03TLSVector), chunk: 100, endErr: io.EOF}, &addr); err != nil || addr != "ipinfo.io:443" {
		return fmt.Errorf("the repo's TLS ClientHello vector is no longer sniffed: addr=%q err=%v", addr, err)
	}
	addr = "111.111.111.111:80"
	req := "GET / HTTP/1.1\r\nHost: example.com:8080\r\nAccept: */*\r\n\r\n"
	if _, err := h.TCP(&v03Stream{data: []byte(req), chunk: 7, endErr: io.EOF}, &addr); err != nil || addr != "example.com:80" {
		return fmt.Errorf("a plain HTTP request is no longer sniffed: addr=%q err=%v", addr, err)
	}
	return nil
}

func v03ProbeUDP() error {
	h := &Sniffer{}
	addr := "2.3.4.5:443"
	if err := h.UDP(v03Tight(v03B64(v03QUICVector)), &addr); err != nil || addr != "www.notion.so:443" {
		return fmt.Errorf("the repo's QUIC Initial vector is no longer sniffed: addr=%q err=%v", addr, err)
	}
	return nil
}

var v03ReqAddrs = []string{"1.2.3.4:443", "1.2.3.4:80", "[2001:db8::1]:443", "9.9.9.9:65535", "0.0.0.0:0", "example.org:443"}

func v03RunTCP(data []byte, chunk int, endErr error, deadlineErr error, rewrite bool, reqAddr string) (string, error) {
	h := &Sniffer{RewriteDomain: rewrite, Timeout: time.Second}
	if !h.Check(false, reqAddr) {
		return "not-hooked", nil
	}
	if chunk < 1 {
		chunk = 1
	}
	addr := reqAddr
	var cls string
	pv, stack := v03Guard(func() {
		st := &v03Stream{data: data, chunk: chunk, endErr: endErr, deadlineEr: deadlineErr}
		putback, err := h.TCP(st, &addr)
		switch {
		case err != nil:
			cls = "error"
		case addr != reqAddr:
			cls = "rewritten"
		default:
			cls = "unchanged"
		}
		if len(putback) > 0 {
			_ = putback[len(putback)-1]
		}
	})
	if pv != nil {
		return "PANIC", fmt.Errorf("Sniffer.TCP panicked: %v\nreqAddr=%q rewriteDomain=%v chunk=%d, stream bytes (hex, %d): %s\n%s", pv, reqAddr, rewrite, chunk, len(data), v03Hex(data), stack)
	}
	kind := "other"
	if len(data) >= 3 {
		if h.isHTTP(data[:3]) {
			kind = "http"
		} else if h.isTLS(data[:3]) {
			kind = "tls"
		}
	} else {
		kind = "short"
	}
	if err := v03ProbeTCP(); err != nil {
		return cls, fmt.Errorf("service did not continue after stream %s: %v", v03Hex(data), err)
	}
	return kind + ":" + cls, nil
}

func v03RunUDP(pkt []byte, rewrite bool, reqAddr string) (string, error) {
	h := &Sniffer{RewriteDomain: rewrite}
	if !h.Check(true, reqAddr) {
		return "not-hooked", nil
	}
	in := v03Tight(pkt)
	addr := reqAddr
	var cls string
	pv, stack := v03Guard(func() {
		err := h.UDP(in, &addr)
		switch {
		case err != nil:
			cls = "error"
		case addr != reqAddr:
			cls = "rewritten"
		default:
			cls = "unchanged"
		}
	})
	if pv != nil {
		return "PANIC", fmt.Errorf("Sniffer.UDP panicked: %v\nreqAddr=%q, datagram payload (hex, %d bytes, cap==len): %s\n%s", pv, reqAddr, len(pkt), v03Hex(pkt), stack)
	}
	if err := v03ProbeUDP(); err != nil {
		return cls, fmt.Errorf("service did not continue after datagram %s: %v", v03Hex(pkt), err)
	}
	return cls, nil
}

// ---- generators ----

func v03GenHTTP(rt *rapid.T) ([]byte, string) {
	var sb strings.Builder
	sb.WriteString(v03Mostly(rt, "method", []string{"GET", "POST", "CONNECT", "PRI", "abc", "OPTIONS", "GET\t", "G\x00T"}))
	sb.WriteString(v03Mostly(rt, "sp1", []string{" ", "  ", ""}))
	sb.WriteString(v03Mostly(rt, "target", []string{"/", "/a?b=c", "*", "http://u@h:1/p", "example.com:443", "/%zz", strings.Repeat("/a", 3000), ""}))
	sb.WriteString(v03Mostly(rt, "proto", []string{" HTTP/1.1", " HTTP/1.0", " HTTP/2.0", " HTTP/9.9", " HTTP/1", "", " HTTP/1.1 extra", " HTTP/-1.1"}))
	eol := v03Mostly(rt, "eol", []string{"\r\n", "\n", "\r"})
	sb.WriteString(eol)
	nh := rapid.IntRange(0, 5).Draw(rt, "nheaders")
	hostLines := []string{"Host: example.com", "Host: example.com:8080", "Host: [::1]:80", "Host: ", "Host: a b", "Host:\t\x7f", "host: UPPER.example", "Host: [::1", "Host: :", "Host: a:b:c",
		"Host: " + strings.Repeat("h", 5000)}
	otherLines := []string{"Accept: */*", "Transfer-Encoding: chunked", "Transfer-Encoding: gzip", "Content-Length: -1", "Content-Length: 99999999999999999999",
		"Content-Length: 5", "Content-Length: 5, 6", "no colon here", ": empty name", " leading: space", "X: " + strings.Repeat("v", 200), "Connection: close", "Trailer: Host", "Host: second.example"}
	hostAt := rapid.IntRange(-1, nh-1).Draw(rt, "hostAt")
	for i := 0; i < nh; i++ {
		if i == hostAt {
			sb.WriteString(v03Mostly(rt, "hostLine", hostLines))
		} else {
			sb.WriteString(v03Mostly(rt, "header", otherLines))
		}
		sb.WriteString(eol)
	}
	if rapid.IntRange(0, 5).Draw(rt, "endHeaders") > 0 {
		sb.WriteString(eol)
	}
	sb.WriteString(rapid.SampledFrom([]string{"", "", "body", "5\r\nhello\r\n0\r\n\r\n"}).Draw(rt, "body"))
	b := []byte(sb.String())
	desc := "http"
	switch rapid.IntRange(0, 19).Draw(rt, "httpMut") {
	case 0, 1:
		b = b[:rapid.IntRange(0, len(b)).Draw(rt, "cut")]
		desc += "+cut"
	case 2: // more header bytes than the sniffer is willing to read (256 KiB)
		b = append(b[:min(len(b), 16)], []byte(strings.Repeat("X-Pad: "+strings.Repeat("p", 1000)+"\r\n", 300))...)
		desc += "+oversize"
	}
	return b, desc
}

func v03GenTLS(rt *rapid.T) ([]byte, string) {
	hello, hdesc := v03GenClientHello(rt)
	rec := []byte{rapid.SampledFrom([]byte{0x16, 0x16, 0x16, 0x17}).Draw(rt, "ctype"), 0x03, rapid.SampledFrom([]byte{0, 1, 3, 4, 9}).Draw(rt, "minor")}
	declared := len(hello)
	switch rapid.IntRange(0, 7).Draw(rt, "recLen") {
	case 0:
		declared = rapid.SampledFrom([]int{0, 1, 3, 4, 5, 65535}).Draw(rt, "recLenVal")
	case 1:
		declared = max(0, declared+rapid.IntRange(-6, 6).Draw(rt, "recLenDelta"))
	}
	if declared > 65535 {
		declared = 65535
	}
	rec = append(rec, byte(declared>>8), byte(declared))
	rec = append(rec, hello...)
	if rapid.IntRange(0, 9).Draw(rt, "recCut") == 0 {
		rec = rec[:rapid.IntRange(3, len(rec)).Draw(rt, "recCutAt")]
	}
	return rec, fmt.Sprintf("tls declared=%d %s", declared, hdesc)
}

// ---- tests ----

// TestVerifC03_Regress_SnifferUDPShortHeader: the repaired defect (fix cad8508) through Sniffer.UDP, library-free.
func TestVerifC03_Regress_SnifferUDPShortHeader(t *testing.T) {
	st := newVStats("TestVerifC03_Regress_SnifferUDPShortHeader")
	defer st.Flush()
	for _, pkt := range [][]byte{
		{0x40, 0, 0, 0, 1, 0, 0, 0, 1, 0x00},
		{0x40, 0, 0, 0, 1, 0, 0, 0, 1, 0xff},
		{0x4f, 0x6b, 0x33, 0x43, 0xcf, 0, 0, 0x40, 0x01, 0x00},
		{0x40, 0, 0, 0, 1, 0, 0, 0, 0x13, 1, 2, 3, 4, 5, 6, 7, 8, 9, 10, 11, 12, 13, 14, 15, 16, 17, 18, 19},
	} {
		cls, err := v03RunUDP(pkt, false, "1.2.3.4:443")
		st.Case(true, v03Hex(pkt), []string{cls}, func() string { return v03Hex(pkt) + " -> " + cls })
		if err != nil {
			t.Fatalf("C03: %v", err)
		}
	}
}

func TestVerifC03_SnifferUDP(t *testing.T) {
	st := newVStats("TestVerifC03_SnifferUDP")
	defer st.Flush()
	rapid.Check(t, func(rt *rapid.T) {
		var pkt []byte
		var desc string
		switch rapid.IntRange(0, 9).Draw(rt, "kind") {
		case 9:
			pkt, desc = rapid.SliceOfN(rapid.Byte(), 0, 64).Draw(rt, "bytes"), "arbitrary"
		case 6, 7:
			pkt, desc = v03GenRawHeader(rt)
		case 8:
			full := v03B64(v03QUICVector)
			pkt = append([]byte(nil), full[:rapid.IntRange(0, len(full)).Draw(rt, "prefix")]...)
			if len(pkt) > 0 && rapid.Bool().Draw(rt, "flip") {
				pkt[rapid.IntRange(0, len(pkt)-1).Draw(rt, "flipAt")] ^= 0x01
			}
			desc = "repo-vector-mutated"
		default:
			pl, fdesc := v03GenFrames(rt)
			var pdesc string
			pkt, pdesc = v03GenProtected(rt, pl)
			desc = pdesc + " | " + fdesc
		}
		rewrite := rapid.Bool().Draw(rt, "rewriteDomain")
		reqAddr := rapid.SampledFrom(v03ReqAddrs).Draw(rt, "reqAddr")
		cls, err := v03RunUDP(pkt, rewrite, reqAddr)
		// what the QUIC layer made of it (independent call, same input)
		deep := "quic:rejected"
		if pl, qerr := v03QuicRead(pkt); qerr == nil {
			deep = "quic:payload"
			if len(pl) >= 4 && pl[0] == 0x01 {
				deep = "quic:clienthello"
			}
		}
		nt := deep != "quic:rejected" // the TLS parser was (or could have been) reached
		st.Case(nt, fmt.Sprintf("%s|%s|%s|%d", cls, deep, desc, len(pkt)), []string{cls, deep}, func() string { return desc + " -> " + cls + " : " + v03Hex(pkt) })
		if err != nil {
			rt.Fatalf("C03: %v\n(%s)", err, desc)
		}
	})
}

func TestVerifC03_SnifferTCP(t *testing.T) {
	st := newVStats("TestVerifC03_SnifferTCP")
	defer st.Flush()
	rapid.Check(t, func(rt *rapid.T) {
		var data []byte
		var desc string
		switch rapid.IntRange(0, 9).Draw(rt, "kind") {
		case 9:
			data, desc = rapid.SliceOfN(rapid.Byte(), 0, 40).Draw(rt, "bytes"), "arbitrary"
		case 8:
			data, desc = []byte(rapid.SampledFrom([]string{"", "G", "GE", "GET", "\x16", "\x16\x03", "\x16\x03\x01", "\x16\x03\x01\x00", "\x16\x03\x01\x00\x00", "\x17\x03\x09\xff\xff"}).Draw(rt, "tiny")), "tiny"
		case 0, 1, 2, 3:
			data, desc = v03GenHTTP(rt)
		default:
			data, desc = v03GenTLS(rt)
		}
		chunk := rapid.SampledFrom([]int{1, 2, 3, 5, 100, 1 << 20}).Draw(rt, "chunk")
		if len(data) > 20000 {
			chunk = 1 << 20
		}
		endErr := rapid.SampledFrom([]error{io.EOF, io.EOF, os.ErrDeadlineExceeded, io.ErrUnexpectedEOF}).Draw(rt, "endErr")
		var dlErr error
		if rapid.IntRange(0, 19).Draw(rt, "deadlineFails") == 0 {
			dlErr = v03ErrDeadlineSet
		}
		rewrite := rapid.Bool().Draw(rt, "rewriteDomain")
		reqAddr := rapid.SampledFrom(v03ReqAddrs).Draw(rt, "reqAddr")
		cls, err := v03RunTCP(data, chunk, endErr, dlErr, rewrite, reqAddr)
		nt := strings.HasPrefix(cls, "http:") || strings.HasPrefix(cls, "tls:") // a protocol parser was entered
		st.Case(nt, fmt.Sprintf("%s|%s|%d|%d", cls, desc, len(data), chunk), []string{cls}, func() string { return desc + " -> " + cls + " : " + v03Hex(data) })
		if err != nil {
			rt.Fatalf("C03: %v", err)
		}
	})
}

func FuzzVerifC03_SnifferUDP(f *testing.F) {
	f.Add(v03B64(v03QUICVector))
	f.Add([]byte("oh my sweet summer child"))
	f.Add([]byte{0x40, 0, 0, 0, 1, 0, 0, 0, 1, 0x00})
	f.Add([]byte{0xc0, 0, 0, 0, 1, 0, 0, 0, 1, 0x00})
	f.Add([]byte{0xc0, 0, 0, 0, 1, 0, 0, 0, 0x14, 1, 2, 3, 4, 5, 6, 7, 8, 9, 10, 11, 12, 13, 14, 15, 16, 17, 18, 19, 20})
	f.Add([]byte{0xd0, 0x6b, 0x33, 0x43, 0xcf, 8, 1, 2, 3, 4, 5, 6, 7, 8, 0, 0, 0x44, 0x9e})
	f.Add([]byte{0xc0, 0, 0, 0, 1, 0, 0, 0xff, 0xff, 0xff, 0xff, 0xff, 0xff, 0xff, 0xff})
	f.Add([]byte{})
	f.Fuzz(func(t *testing.T, data []byte) {
		if _, err := v03RunUDP(data, false, "1.2.3.4:443"); err != nil {
			t.Fatalf("C03: %v", err)
		}
	})
}

// FuzzVerifC03_SnifferUDPPlaintext: the fuzzer owns the CRYPTO stream content (and optionally the whole
// frame plaintext) of a correctly protected Initial, so coverage guidance reaches utls's ClientHello parser.
func FuzzVerifC03_SnifferUDPPlaintext(f *testing.F) {
	f.Add(v03ClientHello([]v03Ext{v03SNIExt("example.com")}, 32, 3), uint8(0))
	f.Add(v03ClientHello([]v03Ext{{16, []byte{0, 3, 2, 'h', '3'}}, v03SNIExt("a.b"), {43, []byte{2, 3, 4}}, {51, []byte{0, 4, 0, 29, 0, 0}}, {57, []byte{1, 2, 3}}}, 0, 1), uint8(1))
	f.Add(v03B64(v03TLSVector)[5:], uint8(0))
	f.Add([]byte{1, 0, 0, 0}, uint8(0))
	f.Add([]byte{1, 0, 0, 2, 3, 3}, uint8(0))
	f.Add([]byte{0x06, 0x00, 0x04, 1, 0, 0, 0}, uint8(2))
	f.Add([]byte{0x06, 0x00, 0x05, 1, 0, 0, 1, 0, 0x06, 0x05, 0x01, 0}, uint8(3))
	// CRYPTO[0,60) followed / preceded by a frame strictly inside it, nested, zero-length inside
	hello := v03ClientHello([]v03Ext{v03SNIExt("example.com")}, 32, 3)
	cf := func(off, n int) []byte {
		return append(v03Varint(v03Varint([]byte{0x06}, uint64(off)), uint64(n)), hello[off:off+n]...)
	}
	f.Add(append(cf(0, len(hello)), cf(10, 5)...), uint8(2))
	f.Add(append(cf(10, 5), cf(0, len(hello))...), uint8(2))
	f.Add(append(append(cf(0, len(hello)), cf(5, 40)...), cf(12, 3)...), uint8(3))
	f.Add(append(append(cf(0, len(hello)), cf(30, 0)...), cf(0, 0)...), uint8(2))
	f.Fuzz(func(t *testing.T, content []byte, mode uint8) {
		var pl []byte
		if mode&2 == 0 {
			pl = append([]byte{0x06, 0x00}, v03Varint(nil, uint64(len(content)))...)
			pl = append(pl, content...)
		} else {
			pl = append(pl, content...)
		}
		p := v03QPkt{version: v03V1, dcid: v03Fill(8, 0x83), pnLen: 2, pn: 1, payload: pl}
		if mode&1 == 1 {
			p.version = v03V2
		}
		for len(p.payload)+p.pnLen < 4 {
			p.payload = append(p.payload, 0)
		}
		if _, err := v03RunUDP(v03QProtect(p), false, "1.2.3.4:443"); err != nil {
			t.Fatalf("C03: %v\ncontent: %s", err, v03Hex(content))
		}
	})
}

func FuzzVerifC03_SnifferTCP(f *testing.F) {
	f.Add([]byte("POST /hello HTTP/1.1\r\nHost: example.com\r\nUser-Agent: mamamiya\r\nContent-Length: 27\r\nConnection: keep-alive\r\n\r\nparam1=value1&param2=value2"), uint8(0))
	f.Add([]byte("GET / HTTP/1.1\r\nHost: example.com:8080\r\nUser-Agent: test-agent\r\nAccept: */*\r\n\r\n"), uint8(3))
	f.Add(v03B64(v03TLSVector), uint8(0))
	f.Add(v03B64(v03TLSVector)[:60], uint8(1))
	f.Add([]byte("Wait It's All Ohio? Always Has Been."), uint8(0))
	f.Add([]byte{1, 2, 3, 4, 5, 6, 7, 8, 9, 10}, uint8(0))
	f.Add([]byte{0x16, 0x03, 0x01, 0x00, 0x00}, uint8(0))
	f.Add([]byte{0x16, 0x03, 0x01, 0xff, 0xff, 1, 0, 0, 0}, uint8(2))
	f.Add([]byte{0x17, 0x03, 0x09, 0x00, 0x04, 1, 0, 0, 0}, uint8(0))
	f.Add([]byte("GET / HTTP/1.1\r\nHost: [::1\r\n\r\n"), uint8(0))
	f.Add([]byte("GE"), uint8(0))
	f.Fuzz(func(t *testing.T, data []byte, mode uint8) {
		chunk := []int{1 << 20, 1, 3, 100}[mode&3]
		endErr := []error{io.EOF, os.ErrDeadlineExceeded}[(mode>>2)&1]
		addr := []string{"1.2.3.4:443", "example.org:80"}[(mode>>3)&1]
		if _, err := v03RunTCP(data, chunk, endErr, nil, mode&0x10 != 0, addr); err != nil {
			t.Fatalf("C03: %v", err)
		}
	})
}
