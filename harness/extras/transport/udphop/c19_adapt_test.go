package udphop

// C19 adapter: the only place where the harness touches unexported names of
// package udphop. None of this is used as an oracle; it is harness mechanics
// (knowing how many results are queued so that a permitted ReadFrom cannot
// block, and emptying the queue at teardown so that a recvLoop parked in its
// blocking "timeout result" send can exit and the synctest bubble can end).

import (
	"errors"
	"net"
)

func v19QueueLen(c net.PacketConn) int {
	return len(c.(*udpHopPacketConn).recvQueue)
}

func v19DrainQueue(c net.PacketConn) int {
	u := c.(*udpHopPacketConn)
	n := 0
	for {
		select {
		case <-u.recvQueue:
			n++
		default:
			return n
		}
	}
}

// v19Poison makes one queued "permanent error" result available so that a
// reader that is (wrongly) still blocked after Close can be released at teardown.
func v19Poison(c net.PacketConn) {
	u := c.(*udpHopPacketConn)
	select {
	case u.recvQueue <- &udpPacket{Err: errors.New("v19 teardown")}:
	default:
	}
}
