package udphop

// C19, concurrent variant (built with -race): writers, an injector, a reader and
// a goroutine changing deadline/buffer settings run concurrently with the
// timer-driven hops and with Close, all inside one synctest bubble. Worker steps
// are separated by virtual sleeps, many of them aligned to the exact instant of
// a hop, so that the operations meet the hop / Close inside the conn's critical
// sections. The invariants are the ones the fakes check on every call (newest
// live socket, server IP, port of the set, nothing sent after Close), the socket
// census at quiescent points, "whatever ReadFrom returns was injected, once",
// and the post-Close conditions. The race detector watches the conn's state.

import (
	"fmt"
	"math/rand"
	"net"
	"strings"
	"sync"
	"testing"
	"testing/synctest"
	"time"

	"pgregory.net/rapid"
)

type v19Step struct {
	sleep   time.Duration // virtual sleep before the action
	align   bool          // instead: sleep until the next multiple of the (fixed) hop interval
	kind, n int
}

type v19RaceCase struct {
	host, expr string
	ports      map[int]bool
	interval   time.Duration
	seed       int64
	writers    [][]v19Step
	injector   []v19Step
	setter     []v19Step
	mainSteps  []v19Step // kind 0 advance, 1 listenFails(n)
	closeAt    int       // index in mainSteps before which Close is issued
	closeAlign bool
}

func (c *v19RaceCase) String() string {
	f := func(st []v19Step) string {
		var p []string
		for _, s := range st {
			if s.align {
				p = append(p, fmt.Sprintf("@hop:%d/%d", s.kind, s.n))
			} else {
				p = append(p, fmt.Sprintf("+%v:%d/%d", s.sleep, s.kind, s.n))
			}
		}
		return "[" + strings.Join(p, " ") + "]"
	}
	var w []string
	for _, x := range c.writers {
		w = append(w, f(x))
	}
	return fmt.Sprintf("server=%s ports=%q interval=%v seed=%d writers=%s injector=%s setter=%s main=%s closeBeforeStep=%d closeAtHop=%v",
		c.host, c.expr, c.interval, c.seed, strings.Join(w, ","), f(c.injector), f(c.setter), f(c.mainSteps), c.closeAt, c.closeAlign)
}

func v19GenSteps(t *rapid.T, label string, max, kinds int) []v19Step {
	n := rapid.IntRange(1, max).Draw(t, label+"N")
	st := make([]v19Step, n)
	for i := range st {
		switch rapid.IntRange(0, 5).Draw(t, label+"Gap") {
		case 0, 1, 2:
			st[i].align = true
		case 3:
			st[i].sleep = time.Duration(rapid.IntRange(0, 2).Draw(t, label+"Ns"))
		default:
			st[i].sleep = time.Duration(rapid.IntRange(1, 6000).Draw(t, label+"Ms")) * time.Millisecond
		}
		st[i].kind = rapid.IntRange(0, kinds-1).Draw(t, label+"Kind")
		st[i].n = rapid.IntRange(0, 3).Draw(t, label+"Arg")
	}
	return st
}

func TestVerifC19_HopConcurrent(t *testing.T) {
	st := newVStats("TestVerifC19_HopConcurrent")
	defer st.Flush()
	rapid.Check(t, func(rt *rapid.T) {
		c := &v19RaceCase{}
		c.host = rapid.SampledFrom(v19Hosts).Draw(rt, "host")
		c.expr, c.ports = v19GenPortSet(rt, 3, 8)
		if len(c.ports) == 65536 {
			c.expr, c.ports = "7000-7003", map[int]bool{7000: true, 7001: true, 7002: true, 7003: true}
		}
		c.interval = rapid.SampledFrom([]time.Duration{5 * time.Second, 7 * time.Second}).Draw(rt, "interval")
		c.seed = rapid.Int64Range(1, 1<<40).Draw(rt, "randSeed")
		nw := rapid.IntRange(1, 3).Draw(rt, "writers")
		for i := 0; i < nw; i++ {
			c.writers = append(c.writers, v19GenSteps(rt, "w", 14, 1))
		}
		c.injector = v19GenSteps(rt, "inj", 14, 2)
		c.setter = v19GenSteps(rt, "set", 12, 6)
		c.mainSteps = v19GenSteps(rt, "main", 16, 2)
		for len(c.mainSteps) < 5 {
			c.mainSteps = append(c.mainSteps, v19Step{align: true})
		}
		for i := range c.mainSteps {
			if !c.mainSteps[i].align && c.mainSteps[i].sleep < 3*time.Second && i%2 == 0 {
				c.mainSteps[i].align = true // keep the main goroutine moving across hops
			}
		}
		if rapid.IntRange(0, 4).Draw(rt, "closeEarly") == 0 {
			c.closeAt = rapid.IntRange(0, len(c.mainSteps)).Draw(rt, "closeAt")
		} else {
			c.closeAt = rapid.IntRange(len(c.mainSteps)-3, len(c.mainSteps)).Draw(rt, "closeAt")
		}
		c.closeAlign = rapid.Bool().Draw(rt, "closeAtHop")

		fail, hops, lateWrites := v19RunConcurrent(t, c)
		cls := []string{fmt.Sprintf("writers=%d", nw)}
		if c.closeAlign {
			cls = append(cls, "close-at-hop-instant")
		}
		if lateWrites > 0 {
			cls = append(cls, "write-after-close")
		}
		switch {
		case hops == 0:
			cls = append(cls, "hops=0")
		case hops < 3:
			cls = append(cls, "hops=1..2")
		default:
			cls = append(cls, "hops>=3")
		}
		st.Case(hops >= 3, c.String(), cls, func() string { return fmt.Sprintf("%v => hops=%d", c, hops) })
		if fail != "" {
			rt.Fatalf("C19 concurrent hop: %s\n    case: %v", fail, c)
		}
	})
}

func v19RunConcurrent(outer *testing.T, c *v19RaceCase) (fail string, hops, lateWrites int) {
	addr, err := ResolveUDPHopAddr(net.JoinHostPort(c.host, c.expr))
	if err != nil {
		return fmt.Sprintf("a valid address %q was rejected: %v", net.JoinHostPort(c.host, c.expr), err), 0, 0
	}
	defer func() {
		if r := recover(); r != nil {
			if fail == "" {
				fail = fmt.Sprintf("panic: %v", r)
			} else {
				fail += fmt.Sprintf("\n    (and the bubble ended with: %v)", r)
			}
		}
	}()
	synctest.Test(outer, func(t *testing.T) {
		rand.Seed(c.seed)
		h := v19NewH(&v19Case{ports: c.ports}, addr)
		defer func() {
			h.mu.Lock()
			hops = len(h.socks) - 1
			h.mu.Unlock()
			if h.fail != "" {
				fail = h.fail + "\n    history: " + h.history()
			}
		}()
		conn, err := NewUDPHopPacketConn(addr, HopIntervalConfig{Min: c.interval, Max: c.interval}, h.listen)
		if err != nil {
			h.mu.Lock()
			h.failf("NewUDPHopPacketConn with a valid configuration failed: %v", err)
			h.mu.Unlock()
			return
		}
		start := time.Now()
		pause := func(s v19Step) {
			if !s.align {
				time.Sleep(s.sleep)
				return
			}
			// next multiple of the interval after now = the instant of the next hop (fixed interval)
			el := time.Since(start)
			next := (el/c.interval + 1) * c.interval
			time.Sleep(next - el)
		}
		go h.reader(conn, true)
		var wg sync.WaitGroup
		var lateMu sync.Mutex
		for wi, steps := range c.writers {
			wg.Add(1)
			go func() {
				defer wg.Done()
				for si, s := range steps {
					pause(s)
					h.mu.Lock()
					closedBefore := h.closeReturned
					h.mu.Unlock()
					p := []byte(fmt.Sprintf("W%d.%d|payload", wi, si))
					n, werr := conn.WriteTo(p, addr)
					h.mu.Lock()
					cnt := h.writeKeys[string(p)]
					switch {
					case closedBefore && werr == nil:
						h.failf("WriteTo invoked after Close had returned succeeded (%d, nil)", n)
					case werr == nil && cnt != 1:
						h.failf("WriteTo returned (%d, nil) but %d packets with its payload reached a socket", n, cnt)
					case werr != nil && !h.closeCalled:
						h.failf("WriteTo failed (%v) although Close was not called", werr)
					case cnt > 1:
						h.failf("one WriteTo produced %d packets", cnt)
					}
					h.mu.Unlock()
					if closedBefore {
						lateMu.Lock()
						lateWrites++
						lateMu.Unlock()
					}
				}
			}()
		}
		wg.Add(1)
		go func() {
			defer wg.Done()
			for _, s := range c.injector {
				pause(s)
				h.inject(s.kind, 24+s.n, true, false) // concurrent with hops: delivery is not demanded, only "nothing invented, nothing twice"
			}
		}()
		wg.Add(1)
		go func() {
			defer wg.Done()
			type bufConn interface {
				SetReadBuffer(int) error
				SetWriteBuffer(int) error
			}
			far := time.Now().Add(1000 * time.Hour)
			for _, s := range c.setter {
				pause(s)
				switch s.kind {
				case 0:
					_ = conn.SetWriteDeadline(far)
				case 1:
					_ = conn.SetReadDeadline([]time.Time{{}, far}[s.n%2])
				case 2:
					_ = conn.SetDeadline([]time.Time{{}, far}[s.n%2])
				case 3:
					_ = conn.(bufConn).SetReadBuffer(4096 << s.n)
				case 4:
					_ = conn.(bufConn).SetWriteBuffer(4096 << s.n)
				default:
					h.mu.Lock()
					closed := h.closeCalled
					h.mu.Unlock()
					if !closed {
						_ = conn.LocalAddr()
					}
				}
			}
		}()
		doClose := func() {
			h.mu.Lock()
			h.closeCalled = true
			h.logf("Close() called")
			h.mu.Unlock()
			_ = conn.Close()
			h.mu.Lock()
			h.closeReturned = true
			h.logf("Close() returned")
			h.mu.Unlock()
			h.signalResume()
		}
		closed := false
		for i := 0; i <= len(c.mainSteps); i++ {
			if i == c.closeAt && !closed {
				if c.closeAlign {
					pause(v19Step{align: true})
				}
				doClose()
				closed = true
			}
			if i == len(c.mainSteps) {
				break
			}
			s := c.mainSteps[i]
			if s.kind == 1 {
				h.mu.Lock()
				h.failNext = 1 + s.n%2
				h.mu.Unlock()
			}
			pause(s)
			synctest.Wait() // workers asleep on virtual timers are durably blocked: a quiescent point
			h.census(fmt.Sprintf("main step %d", i))
			if h.failed() {
				break
			}
		}
		if !closed {
			doClose()
		}
		wg.Wait()
		synctest.Wait()
		h.census("after Close, all workers done")
		// reads invoked after Close returned
		done := make(chan struct{})
		go func() {
			defer close(done)
			buf := make([]byte, 4096)
			for i := 0; i < 3; i++ {
				n, a, rerr := conn.ReadFrom(buf)
				h.noteRead(buf[:n], a, rerr, true)
				if rerr == nil && !h.tolerant {
					return
				}
			}
		}()
		synctest.Wait()
		select {
		case <-done:
		default:
			h.mu.Lock()
			h.failf("ReadFrom invoked after Close blocks instead of failing")
			h.mu.Unlock()
			for i := 0; i < 4; i++ {
				v19Poison(conn)
				synctest.Wait()
			}
		}
		_ = conn.Close() // second Close
		time.Sleep(2*c.interval + time.Second)
		synctest.Wait()
		h.census("two intervals after Close")
		readerGone := false
		for i := 0; i < 8 && !readerGone; i++ {
			synctest.Wait()
			select {
			case <-h.readerDone:
				readerGone = true
			default:
				if i == 0 {
					h.mu.Lock()
					h.failf("a ReadFrom that was blocked when Close was called is still blocked after Close returned")
					h.mu.Unlock()
				}
				v19Poison(conn)
			}
		}
		for i, quiet := 0, 0; i < 200 && quiet < 2; i++ {
			synctest.Wait()
			if v19DrainQueue(conn) == 0 {
				quiet++
			} else {
				quiet = 0
			}
		}
		synctest.Wait()
		if left := v19ConnGoroutines(); left != "" && !h.failed() {
			h.mu.Lock()
			h.failf("goroutines of the conn are still alive after Close: %s", left)
			h.mu.Unlock()
		}
	})
	return fail, hops, lateWrites
}
