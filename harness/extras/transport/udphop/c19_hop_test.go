package udphop

// C19 (hopping half) — every packet a hopping client sends goes to the server IP
// on a port of the configured set, from the newest local socket; across any
// sequence of hops, failed socket creations and Close at most two local sockets
// stay open between hops, packets arriving on the previous socket are still
// delivered until the next hop, and after Close every socket ever opened is
// closed and reads and writes fail.
//
// The conn under test runs inside a testing/synctest bubble (virtual clock,
// exact quiescent points) on top of a fake ListenUDPFunc that returns recording
// in-memory sockets. All oracles are predicates over what the fakes recorded
// (creation/close census, WriteTo socket and destination) and over what
// ReadFrom/WriteTo/Close returned to the harness.

import (
	"errors"
	"fmt"
	"math/rand"
	"net"
	"os"
	"runtime"
	"strings"
	"sync"
	"testing"
	"testing/synctest"
	"time"

	"pgregory.net/rapid"
)

// ---------------------------------------------------------------- fakes

type v19Pkt struct {
	data []byte
	from net.Addr
}

type v19Sock struct {
	h        *v19H
	id       int
	inbox    chan v19Pkt
	closedCh chan struct{}
	// guarded by h.mu
	closed   bool
	closes   int
	rdl, wdl time.Time
	dlCh     chan struct{} // closed and replaced whenever a deadline changes
	rbuf     int
	wbuf     int
}

type v19Write struct {
	sock   int
	key    string
	dst    string
	retN   int
	retErr error
}

type v19Inj struct {
	id         int
	sock       int
	role       string
	at         time.Duration
	afterCycle bool // injected after a read deadline had expired and been cleared again
	eligible   bool // injected on a live socket at a quiescent point, no read deadline expired, before Close
	asserted   bool // delivery is now due
	received   bool
}

type v19H struct {
	mu       sync.Mutex
	t0       time.Time
	serverIP net.IP
	ports    map[int]bool
	hopAddr  net.Addr
	tolerant bool // known finding switch: stale packets may be returned by ReadFrom after Close

	socks       []*v19Sock
	listenTimes []time.Time
	listenFails int
	failNext    int
	writes      []v19Write
	writeKeys   map[string]int
	injected    map[string]*v19Inj
	seq         int

	rdl            time.Time // read deadline the harness has set through the conn (zero = none)
	resume         chan struct{}
	permits        chan struct{}
	readerDone     chan struct{}
	readsDone      int
	readOK         int
	readTimeouts   int
	readErrs       int
	closeCalled    bool
	closeReturned  bool
	staleAfter     int
	livelock       bool
	timeoutsQueued bool // a read deadline has expired since the reader was last (re-)armed
	everExpired    bool
	cycles         int // read deadline expired and was cleared/extended again, reader re-armed

	log  []string
	fail string
}

func (h *v19H) now() time.Duration { return time.Since(h.t0) }

// logf/failf must be called with h.mu held.
func (h *v19H) logf(format string, a ...any) {
	h.log = append(h.log, fmt.Sprintf("t=%v ", h.now())+fmt.Sprintf(format, a...))
}

func (h *v19H) failf(format string, a ...any) {
	msg := fmt.Sprintf(format, a...)
	h.logf("VIOLATION: %s", msg)
	if h.fail == "" {
		h.fail = msg
	}
}

func (h *v19H) failed() bool {
	h.mu.Lock()
	defer h.mu.Unlock()
	return h.fail != ""
}

func (h *v19H) history() string {
	h.mu.Lock()
	defer h.mu.Unlock()
	l := h.log
	pre := ""
	if len(l) > 120 {
		pre = fmt.Sprintf("…(%d earlier events) | ", len(l)-120)
		l = l[len(l)-120:]
	}
	return pre + strings.Join(l, " | ")
}

func (h *v19H) expiredLocked() bool {
	return !h.rdl.IsZero() && !time.Now().Before(h.rdl)
}

// noteExpiryLocked derives "a read deadline has been in force past its instant" from the virtual
// clock. An expiry, once reached, lasts until the deadline value is changed, so it is enough to
// look (a) immediately before every change of h.rdl, (b) at every eligibility decision and
// (c) after every op: no expiry interval can fall between those looks. h.mu must be held.
func (h *v19H) noteExpiryLocked() bool {
	if h.expiredLocked() {
		h.timeoutsQueued = true
		h.everExpired = true
		return true
	}
	return false
}

func (h *v19H) signalResume() {
	h.mu.Lock()
	close(h.resume)
	h.resume = make(chan struct{})
	h.mu.Unlock()
}

// listen is the fake ListenUDPFunc. The conn calls it under its mutex: it never parks.
func (h *v19H) listen() (net.PacketConn, error) {
	h.mu.Lock()
	defer h.mu.Unlock()
	h.listenTimes = append(h.listenTimes, time.Now())
	if h.closeReturned {
		// not by itself a violation of the statement; the census after Close decides
		h.logf("listen called after Close returned")
	}
	if h.failNext > 0 {
		h.failNext--
		h.listenFails++
		h.logf("listen#%d FAILS", len(h.listenTimes)-1)
		return nil, errors.New("v19: listen failed")
	}
	s := &v19Sock{h: h, id: len(h.socks), inbox: make(chan v19Pkt, 512), closedCh: make(chan struct{}), dlCh: make(chan struct{})}
	h.socks = append(h.socks, s)
	h.logf("listen#%d -> s%d", len(h.listenTimes)-1, s.id)
	return s, nil
}

func v19ClosedErr(op string) error {
	return &net.OpError{Op: op, Net: "udp", Err: net.ErrClosed}
}

func v19TimeoutErr(op string) error {
	return &net.OpError{Op: op, Net: "udp", Err: os.ErrDeadlineExceeded}
}

func v19IsTimeout(err error) bool {
	var ne net.Error
	return errors.As(err, &ne) && ne.Timeout()
}

// ReadFrom is called by recvLoop without any lock of the conn held: it may park
// (on bubble channels and a bubble timer only, so the park is "durable").
func (s *v19Sock) ReadFrom(b []byte) (int, net.Addr, error) {
	for {
		s.h.mu.Lock()
		closed, dl, dlCh := s.closed, s.rdl, s.dlCh
		s.h.mu.Unlock()
		if closed {
			return 0, nil, v19ClosedErr("read")
		}
		var tc <-chan time.Time
		var tm *time.Timer
		if !dl.IsZero() {
			d := time.Until(dl)
			if d <= 0 {
				return 0, nil, v19TimeoutErr("read")
			}
			tm = time.NewTimer(d)
			tc = tm.C
		}
		select {
		case p := <-s.inbox:
			if tm != nil {
				tm.Stop()
			}
			return copy(b, p.data), p.from, nil
		case <-s.closedCh:
			if tm != nil {
				tm.Stop()
			}
			return 0, nil, v19ClosedErr("read")
		case <-tc:
			return 0, nil, v19TimeoutErr("read")
		case <-dlCh:
			if tm != nil {
				tm.Stop()
			}
		}
	}
}

// WriteTo is called under the conn's read lock: it records, checks and returns at once.
func (s *v19Sock) WriteTo(b []byte, addr net.Addr) (int, error) {
	h := s.h
	h.mu.Lock()
	defer h.mu.Unlock()
	w := v19Write{sock: s.id, key: string(b), dst: fmt.Sprint(addr)}
	newest := h.socks[len(h.socks)-1]
	if s != newest {
		h.failf("a packet was sent from socket s%d although s%d is the newest local socket", s.id, newest.id)
	}
	if s.closed {
		h.failf("a packet was sent on socket s%d after that socket was closed", s.id)
	}
	if h.closeReturned {
		h.failf("a packet was sent on socket s%d after Close had returned", s.id)
	}
	ua, ok := addr.(*net.UDPAddr)
	switch {
	case !ok || ua == nil:
		h.failf("packet sent to %v (%T), not a UDP address of the server", addr, addr)
	case !ua.IP.Equal(h.serverIP) || ua.Zone != "":
		h.failf("packet sent to %v: IP is not the server IP %v", ua, h.serverIP)
	case !h.ports[ua.Port]:
		h.failf("packet sent to %v: port %d is not in the configured port set", ua, ua.Port)
	}
	switch {
	case s.closed:
		w.retN, w.retErr = 0, v19ClosedErr("write")
	case !s.wdl.IsZero() && !time.Now().Before(s.wdl):
		w.retN, w.retErr = 0, v19TimeoutErr("write")
	default:
		w.retN = len(b)
	}
	h.writes = append(h.writes, w)
	h.writeKeys[w.key]++
	h.logf("s%d.WriteTo(%s -> %s)", s.id, v19Short(w.key), w.dst)
	return w.retN, w.retErr
}

func (s *v19Sock) Close() error {
	h := s.h
	h.mu.Lock()
	defer h.mu.Unlock()
	s.closes++
	if s.closed {
		return v19ClosedErr("close")
	}
	s.closed = true
	close(s.closedCh)
	h.logf("s%d closed", s.id)
	return nil
}

func (s *v19Sock) LocalAddr() net.Addr {
	return &net.UDPAddr{IP: net.IPv4(127, 0, 0, 1), Port: 40000 + s.id}
}

func (s *v19Sock) setDL(r, w *time.Time) error {
	h := s.h
	h.mu.Lock()
	defer h.mu.Unlock()
	if s.closed {
		return v19ClosedErr("set")
	}
	if r != nil {
		s.rdl = *r
	}
	if w != nil {
		s.wdl = *w
	}
	close(s.dlCh)
	s.dlCh = make(chan struct{})
	return nil
}

func (s *v19Sock) SetDeadline(t time.Time) error      { return s.setDL(&t, &t) }
func (s *v19Sock) SetReadDeadline(t time.Time) error  { return s.setDL(&t, nil) }
func (s *v19Sock) SetWriteDeadline(t time.Time) error { return s.setDL(nil, &t) }

func (s *v19Sock) SetReadBuffer(n int) error {
	s.h.mu.Lock()
	s.rbuf = n
	s.h.mu.Unlock()
	return nil
}

func (s *v19Sock) SetWriteBuffer(n int) error {
	s.h.mu.Lock()
	s.wbuf = n
	s.h.mu.Unlock()
	return nil
}

func v19Short(key string) string {
	if i := strings.IndexByte(key, '|'); i > 0 {
		return fmt.Sprintf("%s/%dB", key[:i], len(key))
	}
	return fmt.Sprintf("%dB", len(key))
}

// ---------------------------------------------------------------- harness actions

func (h *v19H) payload(kind byte, n int) []byte {
	h.mu.Lock()
	h.seq++
	id := h.seq
	h.mu.Unlock()
	head := fmt.Sprintf("%c%d|", kind, id)
	if n < len(head) {
		n = len(head)
	}
	b := make([]byte, n)
	copy(b, head)
	for i := len(head); i < n; i++ {
		b[i] = byte(i*31 + id)
	}
	return b
}

// inject puts a packet into the inbox of the socket that currently has the given
// role (0 newest, 1 previous = second newest created, 2 some older one).
func (h *v19H) inject(role, size int, atHop, assertNow bool) {
	p := h.payload('I', size)
	h.mu.Lock()
	defer h.mu.Unlock()
	n := len(h.socks)
	if n == 0 {
		return
	}
	var s *v19Sock
	name := "newest"
	switch {
	case role == 1 && n >= 2:
		s, name = h.socks[n-2], "previous"
	case role == 2 && n >= 3:
		s, name = h.socks[(size*7+h.seq)%(n-2)], "older"
	default:
		s = h.socks[n-1]
	}
	h.noteExpiryLocked()
	inj := &v19Inj{id: h.seq, sock: s.id, role: name, at: h.now()}
	if s.closed {
		if name != "older" && !h.closeCalled {
			h.failf("the %s socket s%d is closed although neither a later hop nor Close happened: packets arriving on it are lost", name, s.id)
		}
		h.logf("inject %s on %s s%d: socket closed, packet lost", v19Short(string(p)), name, s.id)
		return
	}
	if name == "older" && !atHop {
		h.failf("socket s%d is still open although two newer sockets exist", s.id)
	}
	from := &net.UDPAddr{IP: h.serverIP, Port: 1 + (size*13)%65535}
	select {
	case s.inbox <- v19Pkt{data: p, from: from}:
		inj.eligible = !atHop && name != "older" && !h.expiredLocked() && !h.timeoutsQueued && !h.closeCalled
		inj.afterCycle = h.cycles > 0
		inj.asserted = inj.eligible && assertNow
		h.injected[string(p)] = inj
		h.logf("inject %s on %s s%d%s", v19Short(string(p)), name, s.id, map[bool]string{true: "", false: " (delivery not demanded)"}[inj.eligible])
	default:
		h.logf("inject on s%d: harness inbox full, dropped", s.id)
	}
}

func (h *v19H) noteRead(b []byte, addr net.Addr, err error, invokedAfterClose bool) {
	h.mu.Lock()
	defer h.mu.Unlock()
	h.readsDone++
	if err != nil {
		if v19IsTimeout(err) {
			h.readTimeouts++
		} else {
			h.readErrs++
			h.logf("ReadFrom -> %v", err)
		}
		return
	}
	h.readOK++
	key := string(b)
	inj := h.injected[key]
	switch {
	case inj == nil:
		h.failf("ReadFrom returned %d bytes (%s) that were never injected on any socket", len(b), v19Short(key))
		return
	case inj.received:
		h.failf("ReadFrom returned packet %s twice", v19Short(key))
	}
	inj.received = true
	h.logf("ReadFrom -> %s (arrived on %s s%d)", v19Short(key), inj.role, inj.sock)
	if addr == nil || addr.Network() != h.hopAddr.Network() || addr.String() != h.hopAddr.String() {
		h.failf("ReadFrom reported source %v, want the hop address %v", addr, h.hopAddr)
	}
	if invokedAfterClose {
		h.staleAfter++
		if !h.tolerant {
			h.failf("ReadFrom invoked after Close had returned did not fail: it returned packet %s (arrived on s%d before Close)", v19Short(key), inj.sock)
		}
	}
}

// reader is the separate goroutine doing the reads. free: reads continuously,
// parking while the read deadline set by the harness has expired (otherwise it
// would spin with recvLoop on timeout results and the bubble would never become
// quiescent). manual: one ReadFrom per permit.
func (h *v19H) reader(conn net.PacketConn, free bool) {
	defer close(h.readerDone)
	buf := make([]byte, 4096)
	timeouts := 0
	for {
		if free {
			for {
				h.mu.Lock()
				park := h.expiredLocked() && !h.closeReturned
				ch := h.resume
				h.mu.Unlock()
				if !park {
					break
				}
				<-ch
			}
		} else if _, ok := <-h.permits; !ok {
			return
		}
		h.mu.Lock()
		after := h.closeReturned
		h.mu.Unlock()
		n, addr, err := conn.ReadFrom(buf)
		h.noteRead(buf[:n], addr, err, after)
		if err == nil {
			continue
		}
		if v19IsTimeout(err) {
			timeouts++
			if timeouts > 200000 {
				h.mu.Lock()
				h.livelock = true
				h.mu.Unlock()
				return
			}
			continue
		}
		if free {
			return
		}
	}
}

func (h *v19H) openLocked() []int {
	var o []int
	for _, s := range h.socks {
		if !s.closed {
			o = append(o, s.id)
		}
	}
	return o
}

// census is evaluated at quiescent points (after synctest.Wait).
func (h *v19H) census(where string) {
	h.mu.Lock()
	defer h.mu.Unlock()
	open := h.openLocked()
	switch {
	case h.closeReturned:
		if len(open) != 0 {
			h.failf("%s: Close has returned but sockets %v (of %d ever created) are still open", where, open, len(h.socks))
		}
	case len(h.socks) <= 1 && len(open) > 1:
		h.failf("%s: %d sockets open before the first hop", where, len(open))
	case len(open) > 2:
		h.failf("%s: %d local sockets open between hops: %v", where, len(open), open)
	}
}

func (h *v19H) deliveryDue(where string) {
	h.mu.Lock()
	defer h.mu.Unlock()
	for _, inj := range h.injected {
		if inj.asserted && !inj.received {
			inj.asserted = false
			h.failf("%s: packet I%d that arrived on the %s socket s%d at t=%v (before any later hop) was not returned by ReadFrom", where, inj.id, inj.role, inj.sock, inj.at)
		}
	}
}

// ---------------------------------------------------------------- case description

const (
	v19OpWrite = iota
	v19OpInject
	v19OpAdvance
	v19OpListenFails
	v19OpDeadline
	v19OpBuffer
	v19OpLocalAddr
	v19OpRead
	v19OpDrain
	v19OpClose
)

var v19OpNames = []string{"write", "inject", "advance", "listenFails", "deadline", "buffer", "localAddr", "read", "drain", "close"}

type v19Op struct {
	kind  int
	atHop bool // issue the op at the exact virtual instant of the next hop, without waiting for quiescence
	n, m  int
	d     time.Duration
}

func (o v19Op) String() string {
	s := v19OpNames[o.kind]
	switch o.kind {
	case v19OpWrite:
		s += fmt.Sprintf("(%dB,dst%d)", o.n, o.m)
	case v19OpInject:
		s += fmt.Sprintf("(%s,%dB)", []string{"newest", "previous", "older"}[o.m], o.n)
	case v19OpAdvance:
		s += fmt.Sprintf("(%s,%d,%v)", []string{"small", "toHop", "intervals"}[o.m], o.n, o.d)
	case v19OpListenFails:
		s += fmt.Sprintf("(%d)", o.n)
	case v19OpDeadline:
		s += fmt.Sprintf("(%s,%s,%v)", []string{"all", "read", "write"}[o.n], []string{"zero", "far", "in", "now", "past"}[o.m], o.d)
	case v19OpBuffer:
		s += fmt.Sprintf("(%s,%d)", []string{"read", "write"}[o.m], o.n)
	case v19OpRead:
		s += fmt.Sprintf("(%d)", o.n)
	}
	if o.atHop {
		s += "@hop"
	}
	return s
}

type v19Case struct {
	host     string
	expr     string
	ports    map[int]bool
	iv       HopIntervalConfig
	ivName   string
	ivValid  bool
	initFail bool
	seed     int64
	free     bool
	finalOps []v19Op // drain? / close variant
	ops      []v19Op
}

func (c *v19Case) String() string {
	var ops []string
	for _, o := range c.ops {
		ops = append(ops, o.String())
	}
	return fmt.Sprintf("server=%s ports=%q interval=%s{%v,%v} initListenFails=%v reader=%s seed=%d ops=[%s]",
		c.host, c.expr, c.ivName, c.iv.Min, c.iv.Max, c.initFail, map[bool]string{true: "free", false: "permits"}[c.free], c.seed, strings.Join(ops, " "))
}

func (c *v19Case) minInterval() time.Duration {
	if c.iv.Min == 0 && c.iv.Max == 0 {
		return 30 * time.Second
	}
	return c.iv.Min
}

func (c *v19Case) maxInterval() time.Duration {
	if c.iv.Min == 0 && c.iv.Max == 0 {
		return 30 * time.Second
	}
	return c.iv.Max
}

// ---- small port-set generator (expression text + set by construction)

func v19GenPortSet(t *rapid.T, maxItems, maxWidth int) (string, map[int]bool) {
	if rapid.IntRange(0, 59).Draw(t, "wildSet") == 31 {
		all := make(map[int]bool, 65536)
		for p := 0; p < 65536; p++ {
			all[p] = true
		}
		return rapid.SampledFrom([]string{"all", "*"}).Draw(t, "wildcard"), all
	}
	n := rapid.IntRange(1, maxItems).Draw(t, "nItems")
	set := map[int]bool{}
	var parts []string
	lastHi := -1
	for i := 0; i < n; i++ {
		var lo int
		switch rapid.IntRange(0, 5).Draw(t, "base") {
		case 0:
			lo = rapid.SampledFrom([]int{0, 1, 80, 443, 1023, 1024, 32767, 32768, 65533, 65534, 65535}).Draw(t, "corner")
		case 1:
			if lastHi >= 0 && lastHi < 65535 {
				lo = lastHi + 1 // adjacent to the previous item
			} else {
				lo = rapid.IntRange(0, 65535).Draw(t, "lo")
			}
		case 2:
			if lastHi >= 0 {
				lo = lastHi // overlapping the previous item
			} else {
				lo = rapid.IntRange(0, 65535).Draw(t, "lo")
			}
		default:
			lo = rapid.IntRange(0, 65535).Draw(t, "lo")
		}
		hi := lo
		single := rapid.Bool().Draw(t, "single")
		if !single {
			hi = lo + rapid.IntRange(0, maxWidth).Draw(t, "width")
			if hi > 65535 {
				hi = 65535
			}
		}
		for p := lo; p <= hi; p++ {
			set[p] = true
		}
		z := strings.Repeat("0", rapid.SampledFrom([]int{0, 0, 0, 2}).Draw(t, "zeros"))
		switch {
		case single:
			parts = append(parts, z+fmt.Sprint(lo))
		case rapid.IntRange(0, 2).Draw(t, "rev") == 0:
			parts = append(parts, fmt.Sprintf("%d-%s%d", hi, z, lo))
		default:
			parts = append(parts, fmt.Sprintf("%s%d-%d", z, lo, hi))
		}
		lastHi = hi
	}
	return strings.Join(parts, ","), set
}

var v19Hosts = []string{"192.0.2.7", "10.1.2.3", "127.0.0.1", "2001:db8::5", "::1", "255.255.255.254"}

func v19GenInterval(t *rapid.T, allowInvalid bool) (HopIntervalConfig, string, bool) {
	s := time.Second
	k := rapid.IntRange(0, 11).Draw(t, "ivKind")
	if k == 11 && !allowInvalid {
		k = 1
	}
	switch k {
	case 0:
		return HopIntervalConfig{}, "default", true
	case 1, 2, 3:
		d := rapid.SampledFrom([]time.Duration{5 * s, 5*s + 1, 7 * s, 30 * s, 61 * s}).Draw(t, "fixed")
		return HopIntervalConfig{Min: d, Max: d}, "fixed", true
	case 4, 5:
		return HopIntervalConfig{Min: 5 * s, Max: 5*s + time.Duration(rapid.IntRange(1, 3).Draw(t, "ns"))}, "jitter-ns", true
	case 6, 7, 8:
		min := time.Duration(rapid.IntRange(5000, 12000).Draw(t, "minMs")) * time.Millisecond
		return HopIntervalConfig{Min: min, Max: min + time.Duration(rapid.IntRange(1, 20000).Draw(t, "spreadMs"))*time.Millisecond}, "jitter", true
	case 9, 10:
		return HopIntervalConfig{Min: 10 * s, Max: 60 * s}, "jitter-wide", true
	default:
		bad := rapid.SampledFrom([]HopIntervalConfig{
			{Min: 5 * s}, {Max: 5 * s}, {Min: 10 * s, Max: 5 * s}, {Min: 5*s - 1, Max: 5*s - 1}, {Min: s, Max: 10 * s}, {Min: -5 * s, Max: -5 * s}, {Min: -10 * s, Max: 10 * s},
		}).Draw(t, "badInterval")
		return bad, "invalid", false
	}
}

func v19GenOps(t *rapid.T, free bool, max int) []v19Op {
	n := rapid.IntRange(0, max).Draw(t, "nOps")
	if n > 0 && n < 6 {
		n += 6
	}
	ops := make([]v19Op, 0, n)
	for i := 0; i < n; i++ {
		var o v19Op
		r := rapid.IntRange(0, 99).Draw(t, "op")
		switch {
		case r < 30:
			o.kind = v19OpAdvance
			o.m = rapid.SampledFrom([]int{0, 1, 1, 1, 2, 2}).Draw(t, "adv")
			switch o.m {
			case 0:
				o.d = time.Duration(rapid.IntRange(1, 4999).Draw(t, "ms")) * time.Millisecond
			case 1:
				o.d = time.Duration(rapid.SampledFrom([]int{0, 0, 0, -1, 1}).Draw(t, "deltaNs"))
			default:
				o.n = rapid.IntRange(1, 4).Draw(t, "intervals")
				o.d = time.Duration(rapid.IntRange(0, 3000).Draw(t, "extraMs")) * time.Millisecond
			}
		case r < 48:
			o.kind = v19OpWrite
			o.n = rapid.SampledFrom([]int{1, 16, 100, 1200, 1252, 1452, 1500}).Draw(t, "wlen")
			o.m = rapid.IntRange(0, 3).Draw(t, "dst")
			o.atHop = rapid.IntRange(0, 5).Draw(t, "atHop") == 0
		case r < 68:
			o.kind = v19OpInject
			o.m = rapid.SampledFrom([]int{0, 0, 1, 1, 1, 2}).Draw(t, "role")
			o.n = rapid.SampledFrom([]int{1, 20, 333, 1200, 1500, 2048}).Draw(t, "ilen")
			o.atHop = rapid.IntRange(0, 9).Draw(t, "atHop") == 0
		case r < 76:
			o.kind = v19OpListenFails
			o.n = rapid.IntRange(1, 3).Draw(t, "k")
		case r < 83:
			o.kind = v19OpDeadline
			o.n = rapid.IntRange(0, 2).Draw(t, "which")
			o.m = rapid.SampledFrom([]int{0, 0, 1, 2, 2, 3, 4}).Draw(t, "dl")
			o.d = time.Duration(rapid.IntRange(1, 40000).Draw(t, "dlMs")) * time.Millisecond
			o.atHop = rapid.IntRange(0, 7).Draw(t, "atHop") == 0
		case r < 86:
			o.kind = v19OpBuffer
			o.m = rapid.IntRange(0, 1).Draw(t, "rw")
			o.n = rapid.SampledFrom([]int{0, 4096, 1 << 20}).Draw(t, "bytes")
		case r < 88:
			o.kind = v19OpLocalAddr
		case r < 97:
			if free {
				o.kind = v19OpInject
				o.m = 1
				o.n = 64
			} else {
				o.kind = rapid.SampledFrom([]int{v19OpRead, v19OpRead, v19OpDrain}).Draw(t, "rd")
				o.n = rapid.IntRange(1, 3).Draw(t, "reads")
			}
		default:
			o.kind = v19OpClose
			o.atHop = rapid.Bool().Draw(t, "atHop")
		}
		ops = append(ops, o)
	}
	return ops
}

func v19GenCase(t *rapid.T) *v19Case {
	c := &v19Case{}
	c.host = rapid.SampledFrom(v19Hosts).Draw(t, "host")
	c.expr, c.ports = v19GenPortSet(t, 4, 12)
	c.iv, c.ivName, c.ivValid = v19GenInterval(t, true)
	c.initFail = rapid.IntRange(0, 39).Draw(t, "initFail") == 17
	c.seed = rapid.Int64Range(1, 1<<40).Draw(t, "randSeed")
	c.free = rapid.Bool().Draw(t, "freeReader")
	c.ops = v19GenOps(t, c.free, 45)
	if rapid.IntRange(0, 3).Draw(t, "deadlineCycle") == 0 {
		// directed fragment: (some hops) -> a read deadline that really expires between two hops ->
		// deadline cleared / moved into the future -> packets arrive on the previous and the newest
		// socket before the next hop. After the harness has re-armed its reader they must be delivered.
		which := rapid.IntRange(0, 1).Draw(t, "cycleWhich")
		frag := []v19Op{{kind: v19OpAdvance, m: 2, n: rapid.IntRange(1, 3).Draw(t, "cycleHops"), d: time.Duration(rapid.IntRange(0, 500).Draw(t, "cyclePhaseMs")) * time.Millisecond}}
		switch rapid.IntRange(0, 2).Draw(t, "cycleExpiry") {
		case 0:
			frag = append(frag, v19Op{kind: v19OpDeadline, n: which, m: 3})
		case 1:
			frag = append(frag, v19Op{kind: v19OpDeadline, n: which, m: 4})
		default:
			d := time.Duration(rapid.IntRange(1, 2000).Draw(t, "cycleInMs")) * time.Millisecond
			frag = append(frag, v19Op{kind: v19OpDeadline, n: which, m: 2, d: d}, v19Op{kind: v19OpAdvance, m: 0, d: d + time.Duration(rapid.IntRange(0, 1500).Draw(t, "cycleOverMs"))*time.Millisecond})
		}
		if rapid.Bool().Draw(t, "cycleWriteMeanwhile") {
			frag = append(frag, v19Op{kind: v19OpWrite, n: 100})
		}
		frag = append(frag, v19Op{kind: v19OpDeadline, n: rapid.IntRange(0, 1).Draw(t, "cycleClearWhich"), m: rapid.IntRange(0, 1).Draw(t, "cycleClear")})
		for i, k := 0, rapid.IntRange(1, 3).Draw(t, "cycleInjects"); i < k; i++ {
			frag = append(frag, v19Op{kind: v19OpInject, m: rapid.SampledFrom([]int{1, 1, 0}).Draw(t, "cycleRole"), n: 64})
		}
		if !c.free {
			frag = append(frag, v19Op{kind: v19OpDrain})
		}
		at := rapid.IntRange(0, len(c.ops)).Draw(t, "cycleAt")
		c.ops = append(c.ops[:at:at], append(frag, c.ops[at:]...)...)
	}
	if rapid.IntRange(0, 3).Draw(t, "warmUp") != 0 {
		// most histories start some hops in, so that the later ops meet a previous socket
		c.ops = append([]v19Op{{kind: v19OpAdvance, m: 2, n: rapid.IntRange(1, 4).Draw(t, "warmUpIntervals")}}, c.ops...)
	}
	if !c.free && rapid.Bool().Draw(t, "finalDrain") {
		c.finalOps = append(c.finalOps, v19Op{kind: v19OpDrain})
	}
	c.finalOps = append(c.finalOps, v19Op{kind: v19OpClose, atHop: rapid.Bool().Draw(t, "finalCloseAtHop")})
	return c
}

// ---------------------------------------------------------------- running one history

type v19Info struct {
	hops, failedListens, injPrev, injPrevAfterCycle, closeAtHop, staleAfterClose int
	expiredSeen, newErr, livelock                                                bool
}

// v19Tolerant: only if known_findings.txt lists the finding as `known:` (it is `fixed:` in the
// repo since 353d48c, so this is false and reads after Close are checked strictly).
func v19Tolerant() bool {
	return vKnown("c19-stale-read-after-close")
}

func v19NewH(c *v19Case, addr *UDPHopAddr) *v19H {
	return &v19H{
		t0: time.Now(), serverIP: addr.IP, ports: c.ports, hopAddr: addr, tolerant: v19Tolerant(),
		writeKeys: map[string]int{}, injected: map[string]*v19Inj{},
		resume: make(chan struct{}), permits: make(chan struct{}, 8192), readerDone: make(chan struct{}),
	}
}

func v19RunHistory(outer *testing.T, c *v19Case) (fail string, info v19Info) {
	addr, err := ResolveUDPHopAddr(net.JoinHostPort(c.host, c.expr))
	if err != nil {
		return fmt.Sprintf("a valid address %q was rejected: %v", net.JoinHostPort(c.host, c.expr), err), info
	}
	defer func() {
		// synctest panics ("deadlock: main bubble goroutine has exited but blocked goroutines remain")
		// when the conn leaves a goroutine behind; keep the recorded history in that case
		if r := recover(); r != nil {
			if fail == "" {
				fail = fmt.Sprintf("panic: %v", r)
			} else {
				fail += fmt.Sprintf("\n    (and the bubble ended with: %v)", r)
			}
		}
	}()
	synctest.Test(outer, func(t *testing.T) {
		rand.Seed(c.seed)
		h := v19NewH(c, addr)
		defer func() {
			h.mu.Lock()
			info.hops = len(h.socks) - 1
			info.failedListens = h.listenFails
			info.staleAfterClose = h.staleAfter
			info.livelock = h.livelock
			info.expiredSeen = h.everExpired
			for _, inj := range h.injected {
				if inj.role == "previous" && inj.received {
					info.injPrev++
					if inj.afterCycle && inj.eligible {
						info.injPrevAfterCycle++
					}
				}
			}
			h.mu.Unlock()
			if h.fail != "" {
				fail = h.fail + "\n    history: " + h.history()
			}
		}()
		if c.initFail {
			h.failNext = 1
		}
		var conn net.PacketConn
		func() {
			defer func() {
				if r := recover(); r != nil {
					h.mu.Lock()
					h.failf("NewUDPHopPacketConn panicked: %v", r)
					h.mu.Unlock()
				}
			}()
			conn, err = NewUDPHopPacketConn(addr, c.iv, h.listen)
		}()
		if err != nil || conn == nil || !c.ivValid {
			// nothing was handed out: no socket may stay open
			info.newErr = true
			if err == nil && conn != nil {
				_ = conn.Close() // an interval the documentation calls invalid was accepted: not part of the statement; just clean up
				synctest.Wait()
				v19DrainQueue(conn)
			}
			synctest.Wait()
			h.mu.Lock()
			if open := h.openLocked(); len(open) != 0 {
				h.failf("NewUDPHopPacketConn failed (%v) but left sockets %v open", err, open)
			}
			h.mu.Unlock()
			return
		}
		go h.reader(conn, c.free)
		synctest.Wait()
		h.census("after NewUDPHopPacketConn")

		minIv, maxIv := c.minInterval(), c.maxInterval()
		sleepToHop := func(delta time.Duration) {
			h.mu.Lock()
			last := h.listenTimes[len(h.listenTimes)-1]
			h.mu.Unlock()
			if d := time.Until(last.Add(minIv)) + delta; d > 0 {
				time.Sleep(d)
			}
		}
		doClose := func(atHop bool) {
			h.mu.Lock()
			first := !h.closeCalled
			h.closeCalled = true
			h.logf("Close() called%s", map[bool]string{true: " at the hop instant", false: ""}[atHop])
			h.mu.Unlock()
			if first && atHop {
				info.closeAtHop++
			}
			func() {
				defer func() {
					if r := recover(); r != nil {
						h.mu.Lock()
						h.failf("Close panicked: %v", r)
						h.mu.Unlock()
					}
				}()
				_ = conn.Close()
			}()
			h.mu.Lock()
			h.closeReturned = true
			h.logf("Close() returned")
			h.mu.Unlock()
			h.signalResume()
		}
		grant := func(n int) {
			for i := 0; i < n; i++ {
				h.permits <- struct{}{}
			}
		}
		// readQueued lets the permit reader do up to n reads, never more than there are queued results.
		readQueued := func(n int, all bool) {
			for round := 0; round < 64; round++ {
				q := v19QueueLen(conn)
				if !all && q > n {
					q = n
				}
				if q == 0 {
					return
				}
				h.mu.Lock()
				before := h.readsDone
				h.mu.Unlock()
				grant(q)
				synctest.Wait()
				h.mu.Lock()
				done := h.readsDone - before
				if done != q {
					h.failf("%d ReadFrom calls were issued with %d results queued, only %d returned", q, q, done)
				}
				h.mu.Unlock()
				if !all || done != q {
					return
				}
			}
		}

		exec := func(o v19Op) {
			h.mu.Lock()
			closedBefore := h.closeReturned
			socksBefore := len(h.socks)
			openBefore := fmt.Sprint(h.openLocked())
			h.noteExpiryLocked()
			tooManyHops := len(h.listenTimes) > 26
			h.logf("op %v", o)
			h.mu.Unlock()
			if o.atHop && !closedBefore && !tooManyHops {
				sleepToHop(0)
			}
			// the @hop sleep may have carried the clock past the read deadline
			h.mu.Lock()
			h.noteExpiryLocked()
			notArmed := h.timeoutsQueued
			h.mu.Unlock()
			switch o.kind {
			case v19OpAdvance:
				switch {
				case tooManyHops || closedBefore && o.m == 1:
					time.Sleep(time.Millisecond)
				case o.m == 0:
					time.Sleep(o.d)
				case o.m == 1:
					sleepToHop(o.d)
				default:
					time.Sleep(time.Duration(o.n)*maxIv + o.d)
				}
			case v19OpWrite:
				p := h.payload('W', o.n)
				var dst net.Addr
				switch o.m {
				case 0:
					dst = addr
				case 1:
					dst = &net.UDPAddr{IP: net.IPv4(203, 0, 113, 9), Port: 9}
				case 2:
					dst = nil
				default:
					dst = &net.UDPAddr{IP: addr.IP, Port: 65535}
				}
				h.mu.Lock()
				before := len(h.writes)
				h.mu.Unlock()
				var n int
				var werr error
				func() {
					defer func() {
						if r := recover(); r != nil {
							h.mu.Lock()
							h.failf("WriteTo panicked: %v", r)
							h.mu.Unlock()
						}
					}()
					n, werr = conn.WriteTo(p, dst)
				}()
				h.mu.Lock()
				made := h.writes[before:]
				switch {
				case closedBefore:
					if werr == nil {
						h.failf("WriteTo after Close returned (%d, nil): writes must fail after Close", n)
					}
					if len(made) != 0 {
						h.failf("WriteTo after Close still sent %d packet(s)", len(made))
					}
				case len(made) != 1:
					h.failf("one WriteTo on the open conn caused %d socket writes (err=%v)", len(made), werr)
				default:
					w := made[0]
					if w.key != string(p) {
						h.failf("WriteTo sent different bytes than it was given (%s vs %s)", v19Short(w.key), v19Short(string(p)))
					}
					if n != w.retN || (werr == nil) != (w.retErr == nil) {
						h.failf("WriteTo returned (%d,%v) but the socket returned (%d,%v)", n, werr, w.retN, w.retErr)
					}
				}
				h.mu.Unlock()
			case v19OpInject:
				h.inject(o.m, o.n, o.atHop, c.free)
			case v19OpListenFails:
				h.mu.Lock()
				h.failNext = o.n
				h.mu.Unlock()
			case v19OpDeadline:
				var tm time.Time
				switch o.m {
				case 1:
					tm = time.Now().Add(1000 * time.Hour)
				case 2:
					tm = time.Now().Add(o.d)
				case 3:
					tm = time.Now()
				case 4:
					tm = time.Now().Add(-time.Second)
				}
				call := func() {
					switch o.n {
					case 0:
						_ = conn.SetDeadline(tm)
					case 1:
						_ = conn.SetReadDeadline(tm)
					default:
						_ = conn.SetWriteDeadline(tm)
					}
				}
				if o.n == 2 {
					call()
				} else if !tm.IsZero() && !time.Now().Before(tm) {
					h.mu.Lock()
					h.noteExpiryLocked() // the value being replaced may have expired meanwhile
					h.rdl = tm
					h.noteExpiryLocked()
					h.mu.Unlock()
					call()
				} else {
					h.mu.Lock()
					h.noteExpiryLocked() // the value being replaced may have expired meanwhile
					h.mu.Unlock()
					call()
					h.mu.Lock()
					h.rdl = tm
					h.mu.Unlock()
				}
				h.signalResume()
			case v19OpBuffer:
				type bufConn interface {
					SetReadBuffer(int) error
					SetWriteBuffer(int) error
				}
				if bc, ok := conn.(bufConn); ok {
					if o.m == 0 {
						_ = bc.SetReadBuffer(o.n)
					} else {
						_ = bc.SetWriteBuffer(o.n)
					}
				}
			case v19OpLocalAddr:
				if !closedBefore {
					_ = conn.LocalAddr()
				}
			case v19OpRead:
				if !c.free && !notArmed {
					readQueued(o.n, false)
				}
			case v19OpDrain:
				if !c.free && !closedBefore && !notArmed {
					readQueued(0, true)
					// everything injected on a live socket at a quiescent point has been queued by now
					h.mu.Lock()
					for _, inj := range h.injected {
						if !inj.received && inj.eligible {
							inj.asserted = true
						}
					}
					h.mu.Unlock()
					h.deliveryDue("after reading everything queued")
				}
			case v19OpClose:
				doClose(o.atHop && !closedBefore)
			}
			synctest.Wait()
			where := "after " + o.String()
			h.mu.Lock()
			expiredNow := h.noteExpiryLocked()
			rearm := !expiredNow && h.timeoutsQueued && !closedBefore
			h.mu.Unlock()
			if rearm {
				// The deadline was cleared or moved into the future (only a deadline op can do that).
				// Re-arm: the free reader has been resumed and has read everything that was queued
				// (it is parked in ReadFrom again, or synctest.Wait would not have returned); the permit
				// reader is now told to read the queue empty, round after round, until the recvLoops that
				// were parked in their blocking "timeout result" send have got rid of it and are back in
				// the sockets' ReadFrom. From here on delivery is demanded again.
				if !c.free {
					readQueued(0, true)
					synctest.Wait()
				}
				if v19QueueLen(conn) == 0 {
					h.mu.Lock()
					h.timeoutsQueued = false
					h.cycles++
					h.logf("reader re-armed after the read deadline was cleared")
					h.mu.Unlock()
				}
			}
			h.census(where)
			if c.free {
				h.deliveryDue(where)
			}
			h.mu.Lock()
			if !h.closeCalled && len(h.socks) == socksBefore {
				if openAfter := fmt.Sprint(h.openLocked()); openAfter != openBefore {
					h.failf("%s: no socket was created and Close was not called, yet the open sockets changed from %s to %s", where, openBefore, openAfter)
				}
			}
			h.mu.Unlock()
		}

		for _, o := range c.ops {
			if h.failed() {
				break
			}
			exec(o)
		}
		// every history ends with Close (unless it already happened) and the checks after it
		if !h.failed() {
			for _, o := range c.finalOps {
				h.mu.Lock()
				already := h.closeReturned
				h.mu.Unlock()
				if already {
					continue
				}
				exec(o)
			}
		}
		h.mu.Lock()
		closed := h.closeReturned
		h.mu.Unlock()
		if !closed {
			doClose(false) // a violation was found before Close: just tear down
			synctest.Wait()
		} else if !h.failed() {
			// --- after Close
			exec(v19Op{kind: v19OpWrite, n: 32})
			// reads invoked after Close returned must fail; done in a goroutine so that a conn that
			// forgot to unblock readers cannot hang the harness
			done := make(chan struct{})
			go func() {
				defer close(done)
				buf := make([]byte, 4096)
				for i := 0; i < 3; i++ {
					n, a, rerr := conn.ReadFrom(buf)
					h.noteRead(buf[:n], a, rerr, true)
					if rerr == nil && !h.tolerant {
						return
					}
				}
			}()
			synctest.Wait()
			select {
			case <-done:
			default:
				h.mu.Lock()
				h.failf("ReadFrom invoked after Close blocks instead of failing")
				h.mu.Unlock()
				for i := 0; i < 4; i++ {
					v19Poison(conn)
					synctest.Wait()
				}
			}
			if !h.failed() {
				exec(v19Op{kind: v19OpClose}) // a second Close is harmless
				exec(v19Op{kind: v19OpAdvance, m: 2, n: 2, d: time.Second})
				exec(v19Op{kind: v19OpWrite, n: 8, m: 2})
			}
		}
		// --- teardown: stop the reader, let parked recvLoops go, and demand that nothing is left behind
		if !c.free {
			close(h.permits)
		}
		readerGone := false
		for i := 0; i < 8 && !readerGone; i++ {
			synctest.Wait()
			select {
			case <-h.readerDone:
				readerGone = true
			default:
				if i == 0 {
					h.mu.Lock()
					h.failf("a ReadFrom that was blocked when Close was called is still blocked after Close returned")
					h.mu.Unlock()
				}
				v19Poison(conn)
			}
		}
		// Let recvLoops that are parked in their blocking "timeout result" send finish: empty the
		// queue until it stays empty. Then no goroutine of the conn may be left (synctest itself
		// refuses to end the bubble otherwise; the stack scan below only makes the report readable).
		for i, quiet := 0, 0; i < 200 && quiet < 2; i++ {
			synctest.Wait()
			if v19DrainQueue(conn) == 0 {
				quiet++
			} else {
				quiet = 0
			}
		}
		synctest.Wait()
		if left := v19ConnGoroutines(); left != "" && !h.failed() {
			h.mu.Lock()
			h.failf("goroutines of the conn are still alive after Close although the receive queue was drained: %s", left)
			h.mu.Unlock()
		}
		h.census("at the end")
	})
	return fail, info
}

// v19ConnGoroutines lists goroutines of the current bubble that are executing code of the conn under test
// (recvLoop / hopLoop).
var v19StackBuf = make([]byte, 256<<10)

func v19ConnGoroutines() string {
	n := runtime.Stack(v19StackBuf, true)
	for n == len(v19StackBuf) && n < 16<<20 {
		v19StackBuf = make([]byte, 2*len(v19StackBuf))
		n = runtime.Stack(v19StackBuf, true)
	}
	buf := v19StackBuf[:n]
	blocks := strings.Split(string(buf), "\n\n")
	// the first block is the calling goroutine; its header names the bubble it runs in
	header := func(g string) string {
		if i := strings.IndexByte(g, '\n'); i > 0 {
			return g[:i]
		}
		return g
	}
	bubble := ""
	if i := strings.Index(header(blocks[0]), "synctest bubble "); i >= 0 {
		bubble = strings.TrimRight(header(blocks[0])[i:], "]:")
	}
	var out []string
	for _, g := range blocks[1:] {
		hd := header(g)
		if bubble != "" && !strings.Contains(hd, bubble+"]") && !strings.Contains(hd, bubble+",") {
			continue // a goroutine of an earlier (failed) history
		}
		for _, fn := range []string{"(*udpHopPacketConn).recvLoop", "(*udpHopPacketConn).hopLoop"} {
			if strings.Contains(g, fn) {
				out = append(out, strings.TrimPrefix(fn, "(*udpHopPacketConn).")+" "+hd)
			}
		}
	}
	return strings.Join(out, "; ")
}

// TestVerifC19_Hop: sequential histories with exact quiescent points.
func TestVerifC19_Hop(t *testing.T) {
	st := newVStats("TestVerifC19_Hop")
	defer st.Flush()
	rapid.Check(t, func(rt *rapid.T) {
		c := v19GenCase(rt)
		fail, info := v19RunHistory(t, c)
		if info.livelock {
			vInconclusive("C19: reader saw >200000 timeout results in one history (harness deadline model out of step): " + c.String())
		}
		cls := []string{"interval=" + c.ivName, map[bool]string{true: "reader=free", false: "reader=permits"}[c.free]}
		if info.newErr {
			cls = append(cls, "new-fails")
		}
		switch {
		case info.hops <= 0:
			cls = append(cls, "hops=0")
		case info.hops < 3:
			cls = append(cls, "hops=1..2")
		case info.hops < 10:
			cls = append(cls, "hops=3..9")
		default:
			cls = append(cls, "hops>=10")
		}
		if info.failedListens > 0 {
			cls = append(cls, "failed-listen")
		}
		if info.injPrev > 0 {
			cls = append(cls, "delivered-from-previous")
		}
		if info.closeAtHop > 0 {
			cls = append(cls, "close-at-hop-instant")
		}
		if info.expiredSeen {
			cls = append(cls, "read-deadline-expired")
		}
		if info.injPrevAfterCycle > 0 {
			cls = append(cls, "delivered-from-previous-after-deadline-cycle")
		}
		if info.staleAfterClose > 0 {
			cls = append(cls, "stale-read-after-close")
		}
		if len(c.ports) == 65536 {
			cls = append(cls, "ports=all")
		}
		nt := info.hops >= 3 && (info.failedListens > 0 || info.injPrev > 0)
		var fp strings.Builder
		fmt.Fprintf(&fp, "%s/%v/%v/%v/", c.ivName, c.free, c.initFail, len(c.ports))
		for _, o := range c.ops {
			fmt.Fprintf(&fp, "%d%v%d,", o.kind, o.atHop, o.m)
		}
		st.Case(nt, fp.String(), cls, func() string {
			return fmt.Sprintf("%v => hops=%d failedListens=%d deliveredFromPrevious=%d", c, info.hops, info.failedListens, info.injPrev)
		})
		if fail != "" {
			rt.Fatalf("C19 hop: %s\n    case: %v", fail, c)
		}
	})
}

// ---------------------------------------------------------------- address resolution

// TestVerifC19_ResolveAddr: host:expr resolves to one UDP address per port of the denoted set, all with the server IP.
func TestVerifC19_ResolveAddr(t *testing.T) {
	st := newVStats("TestVerifC19_ResolveAddr")
	defer st.Flush()
	rapid.Check(t, func(rt *rapid.T) {
		host := rapid.SampledFrom(v19Hosts).Draw(rt, "host")
		expr, set := v19GenPortSet(rt, 6, 300)
		bad := ""
		if rapid.IntRange(0, 3).Draw(rt, "mutate") == 0 {
			bad = rapid.SampledFrom([]string{",", "-", ",,7", "-7", "7-", "1-2-3", "65536", "70000-70001", "1-65536", "x", "80a", "4294967376"}).Draw(rt, "bad")
			if rapid.Bool().Draw(rt, "front") {
				expr = bad + "," + expr
			} else {
				expr = expr + "," + bad
			}
			if expr == "all,"+bad || expr == "*,"+bad || strings.HasPrefix(expr, bad+",all") || strings.HasPrefix(expr, bad+",*") {
				expr = "5," + bad
			}
		}
		hp := net.JoinHostPort(host, expr)
		st.Case(bad != "" || len(set) >= 2, hp, []string{map[bool]string{true: "invalid", false: "valid"}[bad != ""]}, func() string {
			return fmt.Sprintf("%s -> %d ports", hp, len(set))
		})
		a, err := ResolveUDPHopAddr(hp)
		if bad != "" {
			if err == nil {
				rt.Fatalf("C19 resolve: %q contains the item %q, which is not a port or range, but resolved to %d ports", hp, bad, len(a.Ports))
			}
			return
		}
		if err != nil {
			rt.Fatalf("C19 resolve: valid address %q rejected: %v", hp, err)
		}
		ip := net.ParseIP(host)
		if !a.IP.Equal(ip) {
			rt.Fatalf("C19 resolve: %q resolved to IP %v", hp, a.IP)
		}
		if len(a.Ports) != len(set) {
			rt.Fatalf("C19 resolve: %q denotes %d ports, resolved to %d", hp, len(set), len(a.Ports))
		}
		addrs, err := a.addrs()
		if err != nil || len(addrs) != len(set) {
			rt.Fatalf("C19 resolve: %q: %d addresses (err %v) for %d ports", hp, len(addrs), err, len(set))
		}
		seen := make(map[int]bool, len(set))
		for i, x := range addrs {
			ua, ok := x.(*net.UDPAddr)
			if !ok || !ua.IP.Equal(ip) || ua.Zone != "" {
				rt.Fatalf("C19 resolve: %q: address %d is %v, not a UDP address of %v", hp, i, x, ip)
			}
			if !set[ua.Port] {
				rt.Fatalf("C19 resolve: %q: address %v has a port outside the denoted set", hp, ua)
			}
			if seen[ua.Port] {
				rt.Fatalf("C19 resolve: %q: port %d listed twice", hp, ua.Port)
			}
			seen[ua.Port] = true
			if int(a.Ports[i]) != ua.Port {
				rt.Fatalf("C19 resolve: %q: Ports[%d]=%d but address %d is %v", hp, i, a.Ports[i], i, ua)
			}
		}
		if a.Network() != "udphop" {
			rt.Fatalf("C19 resolve: network %q", a.Network())
		}
	})
}

// TestVerifC19_ReadAfterClose pins the minimal history "a packet is queued, Close, ReadFrom":
// a read invoked after Close has returned must fail.
func TestVerifC19_ReadAfterClose(t *testing.T) {
	st := newVStats("TestVerifC19_ReadAfterClose")
	defer st.Flush()
	addr, err := ResolveUDPHopAddr("192.0.2.7:1000-1003")
	if err != nil {
		t.Fatal(err)
	}
	tolerant := v19Tolerant()
	stale, rounds := 0, 64
	var first string
	for round := 0; round < rounds; round++ {
		c := &v19Case{host: "192.0.2.7", expr: "1000-1003", ports: map[int]bool{1000: true, 1001: true, 1002: true, 1003: true}}
		synctest.Test(t, func(t *testing.T) {
			h := v19NewH(c, addr)
			conn, err := NewUDPHopPacketConn(addr, HopIntervalConfig{Min: 5 * time.Second, Max: 5 * time.Second}, h.listen)
			if err != nil {
				t.Fatal(err)
			}
			h.inject(0, 16, false, false) // arrives on the only socket; nobody is reading
			synctest.Wait()
			_ = conn.Close()
			h.mu.Lock()
			h.closeCalled, h.closeReturned = true, true
			h.mu.Unlock()
			buf := make([]byte, 2048)
			n, _, rerr := conn.ReadFrom(buf) // cannot block: the conn is closed
			if rerr == nil {
				stale++
				if first == "" {
					first = fmt.Sprintf("round %d: [NewUDPHopPacketConn; packet %q arrives on s0; Close() returns; ReadFrom()] -> ReadFrom returned %d bytes, err=nil", round, v19Short(string(buf[:n])), n)
				}
			}
			synctest.Wait()
			v19DrainQueue(conn)
		})
	}
	st.Case(true, "queued-packet/close/read", []string{fmt.Sprintf("stale-reads=%d/%d", stale, rounds)}, func() string {
		return fmt.Sprintf("packet queued, Close, ReadFrom: %d of %d reads after Close succeeded", stale, rounds)
	})
	if stale > 0 && !tolerant {
		t.Fatalf("C19: reads must fail after Close, but %d of %d ReadFrom calls invoked after Close had returned delivered a queued packet; %s", stale, rounds, first)
	}
}
