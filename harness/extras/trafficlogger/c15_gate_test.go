package trafficlogger

// C15 (c), harness-owned yield points: the TrafficLogger monitor and the EventLogger
// fake call gate.enter(kind) at the start of LogOnlineState(true/false) and of
// Connect/Disconnect. When the generated history has armed that kind, the call
// parks on a channel until the harness releases it ("the logger is slow"). None of
// these calls is made with an implementation lock held by a path the harness then
// waits on without a bound: every hold is bounded, and a hold that delays the
// server's own progress (on the unchanged tree the auth answer is written after the
// handler, i.e. after the parked logger call, returned) is given up after v15Hold.

import (
	"sync"
	"time"
)

const (
	v15GOnline = iota
	v15GOffline
	v15GConnectEv
	v15GDisconnectEv
	v15GKinds
)

var v15GNames = [...]string{"LogOnlineState(true)", "LogOnlineState(false)", "EventLogger.Connect", "EventLogger.Disconnect"}

// v15Hold bounds every deliberate hold of a parked call. It only shapes the schedule;
// no verdict depends on it.
const v15Hold = 120 * time.Millisecond

type v15Gate struct {
	mu       sync.Mutex
	armed    [v15GKinds]bool
	waiting  []chan struct{}
	parkedAt time.Time
	entered  int
	exited   int
	parkedN  int // how many calls ever parked
}

func (g *v15Gate) enter(kind int) {
	if g == nil {
		return
	}
	g.mu.Lock()
	g.entered++
	if !g.armed[kind] {
		g.mu.Unlock()
		return
	}
	g.armed[kind] = false
	ch := make(chan struct{})
	if len(g.waiting) == 0 {
		g.parkedAt = time.Now()
	}
	g.waiting = append(g.waiting, ch)
	g.parkedN++
	g.mu.Unlock()
	<-ch
}

func (g *v15Gate) leave() {
	if g == nil {
		return
	}
	g.mu.Lock()
	g.exited++
	g.mu.Unlock()
}

func (g *v15Gate) arm(kind int) {
	g.mu.Lock()
	g.armed[kind] = true
	g.mu.Unlock()
}

// releaseParked lets every currently parked call continue (kinds still armed stay armed).
func (g *v15Gate) releaseParked() {
	g.mu.Lock()
	for _, ch := range g.waiting {
		close(ch)
	}
	g.waiting = nil
	g.mu.Unlock()
}

// open disarms everything and releases everything.
func (g *v15Gate) open() {
	g.mu.Lock()
	g.armed = [v15GKinds]bool{}
	g.mu.Unlock()
	g.releaseParked()
}

func (g *v15Gate) parked() int {
	g.mu.Lock()
	defer g.mu.Unlock()
	return len(g.waiting)
}

// parkedFor: how long the oldest currently parked call has been parked (0 if none).
func (g *v15Gate) parkedFor() time.Duration {
	g.mu.Lock()
	defer g.mu.Unlock()
	if len(g.waiting) == 0 {
		return 0
	}
	return time.Since(g.parkedAt)
}

// quiet: no call is parked and every call that entered has returned.
func (g *v15Gate) quiet() bool {
	g.mu.Lock()
	defer g.mu.Unlock()
	return len(g.waiting) == 0 && g.entered == g.exited
}

func (g *v15Gate) everParked() int {
	g.mu.Lock()
	defer g.mu.Unlock()
	return g.parkedN
}
