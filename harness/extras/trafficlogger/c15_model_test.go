package trafficlogger

// C15 — traffic stats API conserves bytes; kick and online counts are exact.
//
// Shared pieces of the three C15 checks: an HTTP client for the documented API
// of the stats server (GET /traffic[?clear=1] -> {"id":{"tx":n,"rx":n}},
// POST /kick ["id",...], GET /online -> {"id":n}, Authorization: <secret>),
// and the sequential reference model written from the property statement and
// the TrafficLogger interface documentation (tx = bytes server->remote,
// rx = bytes remote->server; LogTraffic returning false = "disconnect").
// Nothing here looks at the implementation's fields.

import (
	"bytes"
	"encoding/json"
	"fmt"
	"net/http"
	"net/http/httptest"
	"sort"
	"strings"
)

type v15TR struct {
	Tx uint64 `json:"tx"`
	Rx uint64 `json:"rx"`
}

func (a v15TR) add(b v15TR) v15TR { return v15TR{a.Tx + b.Tx, a.Rx + b.Rx} }

// v15Auth says which Authorization header a request carries.
type v15Auth int

const (
	v15AuthGood v15Auth = iota
	v15AuthWrong
	v15AuthNone
)

func (a v15Auth) String() string { return [...]string{"auth", "wrongauth", "noauth"}[a] }

// v15Req performs one request against the handler and returns status + body.
func v15Req(h http.Handler, method, target, secret string, auth v15Auth, body []byte) (int, []byte) {
	var req *http.Request
	if body != nil {
		req = httptest.NewRequest(method, target, bytes.NewReader(body))
	} else {
		req = httptest.NewRequest(method, target, nil)
	}
	switch auth {
	case v15AuthGood:
		if secret != "" {
			req.Header.Set("Authorization", secret)
		}
	case v15AuthWrong:
		req.Header.Set("Authorization", secret+"x")
	case v15AuthNone:
	}
	w := httptest.NewRecorder()
	h.ServeHTTP(w, req)
	return w.Code, w.Body.Bytes()
}

// v15Allowed: does the documented API let this request through?
func v15Allowed(secret string, auth v15Auth) bool {
	if secret == "" {
		return true // no secret configured: no authentication
	}
	return auth == v15AuthGood
}

func v15GetTraffic(h http.Handler, secret string, auth v15Auth, clearParam string) (status int, m map[string]v15TR, err error) {
	target := "/traffic"
	if clearParam != "" {
		target += "?clear=" + clearParam
	}
	st, body := v15Req(h, http.MethodGet, target, secret, auth, nil)
	if st != http.StatusOK {
		return st, nil, nil
	}
	m = map[string]v15TR{}
	if e := json.Unmarshal(body, &m); e != nil {
		return st, nil, fmt.Errorf("GET %s: body is not the documented JSON object: %v: %q", target, e, body)
	}
	return st, m, nil
}

func v15GetOnline(h http.Handler, secret string, auth v15Auth) (status int, m map[string]int64, err error) {
	st, body := v15Req(h, http.MethodGet, "/online", secret, auth, nil)
	if st != http.StatusOK {
		return st, nil, nil
	}
	m = map[string]int64{}
	if e := json.Unmarshal(body, &m); e != nil {
		return st, nil, fmt.Errorf("GET /online: body is not the documented JSON object: %v: %q", e, body)
	}
	return st, m, nil
}

func v15PostKick(h http.Handler, secret string, auth v15Auth, ids []string) int {
	if ids == nil {
		ids = []string{}
	}
	b, _ := json.Marshal(ids)
	st, _ := v15Req(h, http.MethodPost, "/kick", secret, auth, b)
	return st
}

// v15IsClear: which values of the clear parameter mean "clear" (documented: clear=1; a boolean).
func v15IsClear(p string) bool { return p == "1" || p == "true" }

// ---- sequential reference model ----

type v15Model struct {
	stats   map[string]v15TR // since the last clear; absent == 0/0
	kicked  map[string]bool  // pending kicks
	online  map[string]int64 // live authenticated connections
	tainted map[string]bool  // ids that got an offline notification without a connection (outside the domain): only ">= 0" is asserted
	// conservation bookkeeping, from observed values only
	accepted map[string]v15TR // sum of reports answered true
	cleared  map[string]v15TR // sum of snapshots returned by clearing requests
}

func v15NewModel() *v15Model {
	return &v15Model{stats: map[string]v15TR{}, kicked: map[string]bool{}, online: map[string]int64{},
		tainted: map[string]bool{}, accepted: map[string]v15TR{}, cleared: map[string]v15TR{}}
}

// log returns what LogTraffic must return.
func (m *v15Model) log(id string, tx, rx uint64) bool {
	if m.kicked[id] {
		delete(m.kicked, id)
		return false
	}
	m.stats[id] = m.stats[id].add(v15TR{tx, rx})
	return true
}

func (m *v15Model) kick(ids []string) {
	for _, id := range ids {
		m.kicked[id] = true
	}
}

func (m *v15Model) clear() { m.stats = map[string]v15TR{} }

// v15CmpTraffic compares a /traffic answer with expected numbers (absent == 0/0 on both sides).
func v15CmpTraffic(got map[string]v15TR, want map[string]v15TR) error {
	keys := map[string]bool{}
	for k := range got {
		keys[k] = true
	}
	for k := range want {
		keys[k] = true
	}
	for _, k := range v15SortedKeys(keys) {
		if got[k] != want[k] {
			return fmt.Errorf("user %q: /traffic says tx=%d rx=%d, model tx=%d rx=%d", k, got[k].Tx, got[k].Rx, want[k].Tx, want[k].Rx)
		}
	}
	return nil
}

// v15CmpOnline: every user with n>0 live connections is listed with n, users with 0 are absent.
func v15CmpOnline(got map[string]int64, want map[string]int64, tainted map[string]bool) error {
	keys := map[string]bool{}
	for k := range got {
		keys[k] = true
	}
	for k := range want {
		keys[k] = true
	}
	for _, k := range v15SortedKeys(keys) {
		g, listed := got[k]
		if g < 0 {
			return fmt.Errorf("user %q: /online lists a negative count %d", k, g)
		}
		if tainted[k] {
			continue
		}
		w := want[k]
		if w == 0 && listed {
			return fmt.Errorf("user %q has no live connection but /online lists it with %d", k, g)
		}
		if g != w {
			return fmt.Errorf("user %q: /online says %d, live authenticated connections = %d", k, g, w)
		}
	}
	return nil
}

func v15SortedKeys(m map[string]bool) []string {
	ks := make([]string, 0, len(m))
	for k := range m {
		ks = append(ks, k)
	}
	sort.Strings(ks)
	return ks
}

func v15FmtOnline(m map[string]int64) string {
	ks := make([]string, 0, len(m))
	for k := range m {
		ks = append(ks, k)
	}
	sort.Strings(ks)
	var sb strings.Builder
	sb.WriteString("{")
	for i, k := range ks {
		if i > 0 {
			sb.WriteString(" ")
		}
		fmt.Fprintf(&sb, "%q:%d", k, m[k])
	}
	sb.WriteString("}")
	return sb.String()
}

func v15FmtTraffic(m map[string]v15TR) string {
	ks := make([]string, 0, len(m))
	for k := range m {
		ks = append(ks, k)
	}
	sort.Strings(ks)
	var sb strings.Builder
	sb.WriteString("{")
	for i, k := range ks {
		if i > 0 {
			sb.WriteString(" ")
		}
		fmt.Fprintf(&sb, "%q:%d/%d", k, m[k].Tx, m[k].Rx)
	}
	sb.WriteString("}")
	return sb.String()
}

// v15IDPool: user ids the checks draw from (JSON object keys: any string is legal, including "").
var v15IDPool = []string{"alice", "bob", "carol", "", "用户", "a b\"c", "0"}
