package trafficlogger

// C15 (c), raw HTTP/3 clients: a plain quic-go connection (ALPN h3, datagrams on) on
// its own loopback socket with an http3 client conn, which sends the hysteria auth
// request (POST https://hysteria/auth with Hysteria-Auth / Hysteria-CC-RX /
// Hysteria-Padding, as PROTOCOL.md describes) as often and with whatever credentials
// the generated history says. The stock client sends exactly one auth request per
// connection; the statement counts *connections*, whatever they send.

import (
	"context"
	"crypto/tls"
	"fmt"
	"net"
	"net/http"
	"net/url"
	"time"

	"github.com/apernet/quic-go"
	"github.com/apernet/quic-go/http3"
)

const v15StatusAuthOK = 233 // PROTOCOL.md: "Hysteria status code 233 (HyOK)"

type v15Raw struct {
	udp  *net.UDPConn
	tr   *quic.Transport
	qc   *quic.Conn
	h3   *http3.ClientConn
	addr string
}

// v15RawDial opens a raw connection; an error is an environment failure.
func v15RawDial(srv net.Addr) (*v15Raw, error) {
	udp, err := net.ListenUDP("udp4", &net.UDPAddr{IP: net.IPv4(127, 0, 0, 1)})
	if err != nil {
		return nil, fmt.Errorf("cannot open a loopback UDP socket: %w", err)
	}
	tr := &quic.Transport{Conn: udp}
	ctx, cancel := context.WithTimeout(context.Background(), v15LiveDeadline)
	defer cancel()
	qc, err := tr.Dial(ctx, srv, &tls.Config{
		InsecureSkipVerify: true,
		NextProtos:         []string{http3.NextProtoH3},
		ServerName:         "localhost",
	}, &quic.Config{
		EnableDatagrams:      true,
		MaxIdleTimeout:       60 * time.Second,
		KeepAlivePeriod:      5 * time.Second,
		HandshakeIdleTimeout: v15LiveDeadline,
	})
	if err != nil {
		_ = tr.Close()
		_ = udp.Close()
		return nil, fmt.Errorf("QUIC handshake failed: %w", err)
	}
	h3t := &http3.Transport{DisableCompression: true}
	return &v15Raw{udp: udp, tr: tr, qc: qc, h3: h3t.NewClientConn(qc), addr: udp.LocalAddr().String()}, nil
}

// auth sends one auth request with the given credential and returns the status code.
func (r *v15Raw) auth(cred string) (int, error) {
	ctx, cancel := context.WithTimeout(context.Background(), v15LiveDeadline)
	defer cancel()
	h := http.Header{}
	h.Set("Hysteria-Auth", cred)
	h.Set("Hysteria-CC-RX", "0")
	h.Set("Hysteria-Padding", "c15c15c15c15c15c15c15c15c15c15c15c15c15c15c15c15c15c15c15c15c15c15c15c15")
	req := (&http.Request{
		Method:     http.MethodPost,
		URL:        &url.URL{Scheme: "https", Host: "hysteria", Path: "/auth"},
		Host:       "hysteria",
		Header:     h,
		Proto:      "HTTP/3.0",
		ProtoMajor: 3,
	}).WithContext(ctx)
	resp, err := r.h3.RoundTrip(req)
	if err != nil {
		return 0, err
	}
	_ = resp.Body.Close()
	return resp.StatusCode, nil
}

// hangUp closes the QUIC connection the way a client does (application close, H3_NO_ERROR).
func (r *v15Raw) hangUp() { _ = r.qc.CloseWithError(0x100, "") }

// release frees transport and socket; the socket stays bound until the end of the case so
// that no later connection of the case can get the same address (events are keyed by it).
func (r *v15Raw) release() {
	_ = r.qc.CloseWithError(0x100, "")
	_ = r.tr.Close()
	_ = r.udp.Close()
}
