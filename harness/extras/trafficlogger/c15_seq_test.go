package trafficlogger

// C15 (a): sequential model-based check of the stats server through its exported
// constructor, the TrafficLogger methods and ServeHTTP (httptest).

import (
	"fmt"
	"net/http"
	"strings"
	"testing"

	"pgregory.net/rapid"
)

func v15GenAmount() *rapid.Generator[uint64] {
	return rapid.OneOf(
		rapid.Just(uint64(0)),
		rapid.Uint64Range(1, 1500),
		rapid.Uint64Range(1501, 65536),
		rapid.Uint64Range(1<<20, 1<<40),
	)
}

func v15GenAuth() *rapid.Generator[v15Auth] {
	return rapid.Custom(func(t *rapid.T) v15Auth {
		// mostly authorised, otherwise the history never changes state
		switch rapid.IntRange(0, 9).Draw(t, "auth") {
		case 0:
			return v15AuthWrong
		case 1:
			return v15AuthNone
		}
		return v15AuthGood
	})
}

func TestVerifC15_Sequential(t *testing.T) {
	st := newVStats("TestVerifC15_Sequential")
	defer st.Flush()
	rapid.Check(t, func(rt *rapid.T) {
		secret := rapid.SampledFrom([]string{"", "s3cret", "Bearer x y"}).Draw(rt, "secret")
		nIDs := rapid.IntRange(1, 4).Draw(rt, "nIDs")
		perm := rapid.Permutation(v15IDPool).Draw(rt, "ids")
		ids := perm[:nIDs]
		ghost := perm[nIDs] // never logs, never connects; may be kicked

		srv := NewTrafficStatsServer(secret)
		m := v15NewModel()
		var hist []string
		ops := []string{}
		classes := map[string]bool{}
		// NT bookkeeping
		reportsSinceKick := map[string]int{} // id -> 0 none, 1 report seen, 2 kick after report, 3 report after that kick
		ntKick, ntClear := false, false
		loggedSinceClear := false
		// case accounting runs also when the case fails (deferred: Fatalf unwinds through it)
		defer func() {
			if ntKick {
				classes["kick-between-reports"] = true
			}
			if ntClear {
				classes["clear-after-log"] = true
			}
			if secret != "" {
				classes["with-secret"] = true
			}
			var cl []string
			for c := range classes {
				cl = append(cl, c)
			}
			st.Case(ntKick || ntClear, strings.Join(ops, ","), cl, func() string { return strings.Join(hist, " ; ") })
		}()
		fail := func(format string, a ...any) {
			rt.Helper()
			rt.Fatalf("C15: %s\nsecret=%q history:\n  %s", fmt.Sprintf(format, a...), secret, strings.Join(hist, "\n  "))
		}
		note := func(kind, format string, a ...any) {
			ops = append(ops, kind)
			hist = append(hist, fmt.Sprintf(format, a...))
		}

		checkTraffic := func(auth v15Auth, clearParam string) {
			status, got, err := v15GetTraffic(srv, secret, auth, clearParam)
			note("traffic", "GET /traffic clear=%q %v -> %d %s", clearParam, auth, status, v15FmtTraffic(got))
			if err != nil {
				fail("%v", err)
			}
			if !v15Allowed(secret, auth) {
				classes["unauthorized"] = true
				if status/100 == 2 {
					fail("request without the secret was answered %d", status)
				}
				return // and it must not have changed anything: later comparisons show it
			}
			if status != http.StatusOK {
				fail("authorised GET /traffic answered %d", status)
			}
			if e := v15CmpTraffic(got, m.stats); e != nil {
				fail("%v", e)
			}
			if v15IsClear(clearParam) {
				for id, v := range got {
					m.cleared[id] = m.cleared[id].add(v)
				}
				m.clear()
				classes["clear"] = true
				if loggedSinceClear {
					ntClear = true
				}
				loggedSinceClear = false
			}
		}
		checkOnline := func(auth v15Auth) {
			status, got, err := v15GetOnline(srv, secret, auth)
			note("online?", "GET /online %v -> %d %s", auth, status, v15FmtOnline(got))
			if err != nil {
				fail("%v", err)
			}
			if !v15Allowed(secret, auth) {
				if status/100 == 2 {
					fail("request without the secret was answered %d", status)
				}
				return
			}
			if status != http.StatusOK {
				fail("authorised GET /online answered %d", status)
			}
			if e := v15CmpOnline(got, m.online, m.tainted); e != nil {
				fail("%v", e)
			}
		}

		rt.Repeat(map[string]func(*rapid.T){
			"log": func(rt *rapid.T) {
				id := rapid.SampledFrom(ids).Draw(rt, "id")
				tx, rx := v15GenAmount().Draw(rt, "tx"), v15GenAmount().Draw(rt, "rx")
				want := m.log(id, tx, rx)
				got := srv.LogTraffic(id, tx, rx)
				note("log", "LogTraffic(%q, tx=%d, rx=%d) -> %v", id, tx, rx, got)
				if got != want {
					if want {
						fail("report of %q refused although no kick is pending for it", id)
					}
					fail("report of %q accepted although it is the first report after a kick", id)
				}
				if got {
					m.accepted[id] = m.accepted[id].add(v15TR{tx, rx})
					loggedSinceClear = true
				} else {
					classes["refused"] = true
				}
				switch reportsSinceKick[id] {
				case 0:
					reportsSinceKick[id] = 1
				case 2:
					reportsSinceKick[id] = 1
					ntKick = true
				}
			},
			"traffic": func(rt *rapid.T) {
				cp := rapid.SampledFrom([]string{"", "", "0", "false", "1", "1", "true"}).Draw(rt, "clear")
				checkTraffic(v15GenAuth().Draw(rt, "auth"), cp)
			},
			"kick": func(rt *rapid.T) {
				cand := append(append([]string{}, ids...), ghost)
				k := rapid.SliceOfN(rapid.SampledFrom(cand), 0, 3).Draw(rt, "kick")
				auth := v15GenAuth().Draw(rt, "auth")
				status := v15PostKick(srv, secret, auth, k)
				note("kick", "POST /kick %q %v -> %d", k, auth, status)
				if !v15Allowed(secret, auth) {
					classes["unauthorized"] = true
					if status/100 == 2 {
						fail("kick without the secret was answered %d", status)
					}
					return
				}
				if status != http.StatusOK {
					fail("authorised POST /kick answered %d", status)
				}
				m.kick(k)
				for _, id := range k {
					if reportsSinceKick[id] == 1 {
						reportsSinceKick[id] = 2
					}
					if m.online[id] == 0 {
						classes["kick-offline-user"] = true
					}
				}
				if len(k) > 1 {
					classes["kick-many"] = true
				}
			},
			"connect": func(rt *rapid.T) {
				id := rapid.SampledFrom(ids).Draw(rt, "id")
				srv.LogOnlineState(id, true)
				m.online[id]++
				note("on", "LogOnlineState(%q, true)", id)
				if m.online[id] > 1 {
					classes["multi-conn"] = true
				}
			},
			"disconnect": func(rt *rapid.T) {
				var live []string
				for _, id := range ids {
					if m.online[id] > 0 {
						live = append(live, id)
					}
				}
				if len(live) == 0 {
					rt.Skip("nobody online")
				}
				id := rapid.SampledFrom(live).Draw(rt, "id")
				srv.LogOnlineState(id, false)
				m.online[id]--
				if m.online[id] == 0 {
					delete(m.online, id)
					classes["back-to-zero"] = true
				}
				note("off", "LogOnlineState(%q, false)", id)
			},
			"strayDisconnect": func(rt *rapid.T) {
				// outside the domain (the server pairs notifications); rare, and afterwards only
				// "never negative" is asserted for that id
				if rapid.IntRange(0, 7).Draw(rt, "rare") != 0 {
					rt.Skip("rare")
				}
				id := rapid.SampledFrom(ids).Draw(rt, "id")
				if m.online[id] > 0 {
					rt.Skip("has connections")
				}
				srv.LogOnlineState(id, false)
				m.tainted[id] = true
				classes["stray-offline"] = true
				note("stray", "LogOnlineState(%q, false) without a connection", id)
			},
			"online?": func(rt *rapid.T) {
				checkOnline(v15GenAuth().Draw(rt, "auth"))
			},
			"": func(rt *rapid.T) {
				// observation after every step (authorised, non-clearing)
				_, got, err := v15GetTraffic(srv, secret, v15AuthGood, "")
				if err != nil {
					fail("%v", err)
				}
				if e := v15CmpTraffic(got, m.stats); e != nil {
					fail("after the last step: %v", e)
				}
				_, on, err := v15GetOnline(srv, secret, v15AuthGood)
				if err != nil {
					fail("%v", err)
				}
				if e := v15CmpOnline(on, m.online, m.tainted); e != nil {
					fail("after the last step: %v", e)
				}
			},
		})

		// conservation, from observed values only: sum(cleared snapshots) + final snapshot == sum(accepted reports)
		_, final, err := v15GetTraffic(srv, secret, v15AuthGood, "")
		if err != nil {
			fail("%v", err)
		}
		total := map[string]v15TR{}
		for id, v := range m.cleared {
			total[id] = total[id].add(v)
		}
		for id, v := range final {
			total[id] = total[id].add(v)
		}
		if e := v15CmpTraffic(total, m.accepted); e != nil {
			fail("conservation (cleared snapshots + final snapshot vs accepted reports): %v", e)
		}

	})
}
