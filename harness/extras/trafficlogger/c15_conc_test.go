package trafficlogger

// C15 (b): concurrent histories. 4-16 goroutines run generated programs against one
// stats server; every call/return is stamped with a shared logical clock; the
// per-user projections of the history are checked for linearizability against the
// sequential model (porcupine), and the conservation invariant is checked from
// the observed values alone. Built with -race.
//
// Soundness of the per-user projection: a multi-user operation (GET /traffic,
// GET /online, POST /kick [..]) is split into one sub-operation per user with the
// same call/return stamps. If the whole history is linearizable for the whole
// model, every projection is linearizable for the per-user model; the converse is
// not claimed (cross-user atomicity of a snapshot is not part of the statement).

import (
	"fmt"
	"net/http"
	"os"
	"sort"
	"strings"
	"sync"
	"sync/atomic"
	"testing"
	"time"

	"github.com/anishathalye/porcupine"
	"pgregory.net/rapid"
)

type v15OpKind uint8

const (
	v15OpLog v15OpKind = iota
	v15OpTraffic
	v15OpClear
	v15OpKick
	v15OpOn
	v15OpOff
	v15OpOnlineQ
)

type v15Op struct {
	kind   v15OpKind
	id     string   // log/on/off
	tx, rx uint64   // log
	ids    []string // kick
}

func (o v15Op) String() string {
	switch o.kind {
	case v15OpLog:
		return fmt.Sprintf("log(%q,%d,%d)", o.id, o.tx, o.rx)
	case v15OpTraffic:
		return "GET/traffic"
	case v15OpClear:
		return "GET/traffic?clear=1"
	case v15OpKick:
		return fmt.Sprintf("kick%q", o.ids)
	case v15OpOn:
		return fmt.Sprintf("online(%q,+)", o.id)
	case v15OpOff:
		return fmt.Sprintf("online(%q,-)", o.id)
	}
	return "GET/online"
}

// one executed operation
type v15Done struct {
	g         int
	op        v15Op
	call, ret int64
	ok        bool             // log
	traffic   map[string]v15TR // traffic/clear
	online    map[string]int64 // online?
	status    int
}

func (d v15Done) String() string {
	out := ""
	switch d.op.kind {
	case v15OpLog:
		out = fmt.Sprint(d.ok)
	case v15OpTraffic, v15OpClear:
		out = v15FmtTraffic(d.traffic)
	case v15OpOnlineQ:
		out = v15FmtOnline(d.online)
	case v15OpKick:
		out = fmt.Sprint(d.status)
	}
	return fmt.Sprintf("g%-2d [%4d,%4d] %v -> %s", d.g, d.call, d.ret, d.op, out)
}

// ---- per-user porcupine model ----

type v15UState struct {
	tx, rx uint64
	kicked bool
	online int64
}

type v15UIn struct {
	kind   v15OpKind
	tx, rx uint64
}

type v15UOut struct {
	ok     bool
	tx, rx uint64
	online int64
}

var v15UserModel = porcupine.Model{
	Init: func() interface{} { return v15UState{} },
	Step: func(state, input, output interface{}) (bool, interface{}) {
		s, in, out := state.(v15UState), input.(v15UIn), output.(v15UOut)
		switch in.kind {
		case v15OpLog:
			if s.kicked {
				s.kicked = false
				return !out.ok, s
			}
			s.tx += in.tx
			s.rx += in.rx
			return out.ok, s
		case v15OpTraffic:
			return out.tx == s.tx && out.rx == s.rx, s
		case v15OpClear:
			good := out.tx == s.tx && out.rx == s.rx
			s.tx, s.rx = 0, 0
			return good, s
		case v15OpKick:
			s.kicked = true
			return true, s
		case v15OpOn:
			s.online++
			return true, s
		case v15OpOff:
			s.online--
			return true, s
		case v15OpOnlineQ:
			return out.online == s.online, s
		}
		return false, s
	},
	DescribeOperation: func(input, output interface{}) string { return fmt.Sprint(input, "->", output) },
}

func v15Project(done []v15Done, id string) []porcupine.Operation {
	var ops []porcupine.Operation
	add := func(d v15Done, in v15UIn, out v15UOut) {
		ops = append(ops, porcupine.Operation{ClientId: d.g, Input: in, Call: d.call, Output: out, Return: d.ret})
	}
	for _, d := range done {
		switch d.op.kind {
		case v15OpLog:
			if d.op.id == id {
				add(d, v15UIn{kind: v15OpLog, tx: d.op.tx, rx: d.op.rx}, v15UOut{ok: d.ok})
			}
		case v15OpTraffic, v15OpClear:
			v := d.traffic[id]
			add(d, v15UIn{kind: d.op.kind}, v15UOut{tx: v.Tx, rx: v.Rx})
		case v15OpKick:
			for _, k := range d.op.ids {
				if k == id {
					add(d, v15UIn{kind: v15OpKick}, v15UOut{})
					break
				}
			}
		case v15OpOn, v15OpOff:
			if d.op.id == id {
				add(d, v15UIn{kind: d.op.kind}, v15UOut{})
			}
		case v15OpOnlineQ:
			add(d, v15UIn{kind: v15OpOnlineQ}, v15UOut{online: d.online[id]})
		}
	}
	return ops
}

func v15GenPrograms(rt *rapid.T, ids []string, nG, maxOps int) [][]v15Op {
	// the mix: mostly reports; every goroutine may poll, clear and kick
	progs := make([][]v15Op, nG)
	for g := 0; g < nG; g++ {
		n := rapid.IntRange(3, maxOps).Draw(rt, "nOps")
		role := rapid.IntRange(0, 3).Draw(rt, "role") // 0,1: reporter-heavy  2: poller-heavy  3: mixed
		own := map[string]int{}
		for i := 0; i < n; i++ {
			var w []int // weights: log, traffic, clear, kick, on, off, online?
			switch role {
			case 0, 1:
				w = []int{12, 1, 2, 1, 1, 1, 1}
			case 2:
				w = []int{2, 3, 6, 2, 1, 1, 2}
			default:
				w = []int{5, 2, 3, 2, 2, 2, 2}
			}
			tot := 0
			for _, x := range w {
				tot += x
			}
			r := rapid.IntRange(0, tot-1).Draw(rt, "kind")
			k := 0
			for r >= w[k] {
				r -= w[k]
				k++
			}
			op := v15Op{kind: v15OpKind(k)}
			switch op.kind {
			case v15OpLog:
				op.id = rapid.SampledFrom(ids).Draw(rt, "id")
				op.tx = rapid.Uint64Range(0, 2000).Draw(rt, "tx")
				op.rx = rapid.Uint64Range(0, 2000).Draw(rt, "rx")
			case v15OpKick:
				op.ids = rapid.SliceOfN(rapid.SampledFrom(ids), 1, 2).Draw(rt, "kick")
			case v15OpOn:
				op.id = rapid.SampledFrom(ids).Draw(rt, "id")
				own[op.id]++
			case v15OpOff:
				// a goroutine only ends connections it opened itself: the count can never be
				// driven below zero in any linearization
				var mine []string
				for _, id := range ids {
					if own[id] > 0 {
						mine = append(mine, id)
					}
				}
				if len(mine) == 0 {
					op.kind = v15OpOnlineQ
				} else {
					op.id = rapid.SampledFrom(mine).Draw(rt, "id")
					own[op.id]--
				}
			}
			progs[g] = append(progs[g], op)
		}
	}
	return progs
}

func v15RunConcurrent(srv TrafficStatsServer, secret string, progs [][]v15Op) (done []v15Done, harnessErr error) {
	var clock atomic.Int64
	results := make([][]v15Done, len(progs))
	errs := make([]error, len(progs))
	start := make(chan struct{})
	var wg sync.WaitGroup
	for g := range progs {
		wg.Add(1)
		go func(g int) {
			defer wg.Done()
			<-start
			for _, op := range progs[g] {
				d := v15Done{g: g, op: op}
				d.call = clock.Add(1)
				switch op.kind {
				case v15OpLog:
					d.ok = srv.LogTraffic(op.id, op.tx, op.rx)
				case v15OpTraffic, v15OpClear:
					cp := ""
					if op.kind == v15OpClear {
						cp = "1"
					}
					var err error
					d.status, d.traffic, err = v15GetTraffic(srv, secret, v15AuthGood, cp)
					if err != nil && errs[g] == nil {
						errs[g] = err
					}
				case v15OpKick:
					d.status = v15PostKick(srv, secret, v15AuthGood, op.ids)
				case v15OpOn:
					srv.LogOnlineState(op.id, true)
				case v15OpOff:
					srv.LogOnlineState(op.id, false)
				case v15OpOnlineQ:
					var err error
					d.status, d.online, err = v15GetOnline(srv, secret, v15AuthGood)
					if err != nil && errs[g] == nil {
						errs[g] = err
					}
				}
				d.ret = clock.Add(1)
				if (op.kind == v15OpTraffic || op.kind == v15OpClear || op.kind == v15OpOnlineQ || op.kind == v15OpKick) &&
					d.status != http.StatusOK && errs[g] == nil {
					errs[g] = fmt.Errorf("%v answered %d", op, d.status)
				}
				results[g] = append(results[g], d)
			}
		}(g)
	}
	close(start)
	wg.Wait()
	for g := range results {
		done = append(done, results[g]...)
		if errs[g] != nil && harnessErr == nil {
			harnessErr = errs[g]
		}
	}
	// final observations by the main goroutine, after everything returned
	fin := v15Done{g: len(progs), op: v15Op{kind: v15OpTraffic}}
	fin.call = clock.Add(1)
	var err error
	fin.status, fin.traffic, err = v15GetTraffic(srv, secret, v15AuthGood, "")
	fin.ret = clock.Add(1)
	if err != nil && harnessErr == nil {
		harnessErr = err
	}
	done = append(done, fin)
	fo := v15Done{g: len(progs), op: v15Op{kind: v15OpOnlineQ}}
	fo.call = clock.Add(1)
	fo.status, fo.online, err = v15GetOnline(srv, secret, v15AuthGood)
	fo.ret = clock.Add(1)
	if err != nil && harnessErr == nil {
		harnessErr = err
	}
	done = append(done, fo)
	sort.Slice(done, func(i, j int) bool { return done[i].call < done[j].call })
	return done, harnessErr
}

func v15RenderHistory(done []v15Done, onlyID string, limit int) string {
	var sb strings.Builder
	n := 0
	for _, d := range done {
		if onlyID != "\x00" {
			rel := false
			switch d.op.kind {
			case v15OpLog, v15OpOn, v15OpOff:
				rel = d.op.id == onlyID
			case v15OpKick:
				for _, k := range d.op.ids {
					rel = rel || k == onlyID
				}
			default:
				rel = true
			}
			if !rel {
				continue
			}
		}
		if n >= limit {
			sb.WriteString("  ...\n")
			break
		}
		sb.WriteString("  " + d.String() + "\n")
		n++
	}
	return sb.String()
}

func TestVerifC15_Concurrent(t *testing.T) {
	st := newVStats("TestVerifC15_Concurrent")
	defer st.Flush()
	maxOps := 24
	if os.Getenv("VERIF_TIER") == "thorough" {
		maxOps = 40
	}
	var undecided int64
	rapid.Check(t, func(rt *rapid.T) {
		secret := rapid.SampledFrom([]string{"", "s3cret"}).Draw(rt, "secret")
		nIDs := rapid.IntRange(1, 3).Draw(rt, "nIDs")
		ids := rapid.Permutation(v15IDPool).Draw(rt, "ids")[:nIDs]
		nG := rapid.IntRange(4, 16).Draw(rt, "goroutines")
		progs := v15GenPrograms(rt, ids, nG, maxOps)

		srv := NewTrafficStatsServer(secret)
		done, herr := v15RunConcurrent(srv, secret, progs)
		if herr != nil {
			rt.Fatalf("C15: %v\nhistory:\n%s", herr, v15RenderHistory(done, "\x00", 400))
		}

		// ---- classification (NT: a clear overlapping a report, or a kick between two reports of a user)
		classes := []string{fmt.Sprintf("goroutines-%d", (nG+3)/4*4), fmt.Sprintf("users-%d", nIDs)}
		var clears, logs []v15Done
		for _, d := range done {
			switch d.op.kind {
			case v15OpClear:
				clears = append(clears, d)
			case v15OpLog:
				logs = append(logs, d)
			}
		}
		overlapClear := 0
		for _, c := range clears {
			for _, l := range logs {
				if l.call < c.ret && c.call < l.ret {
					overlapClear++
					break
				}
			}
		}
		refused := 0
		for _, l := range logs {
			if !l.ok {
				refused++
			}
		}
		kickBetween := false
		for _, id := range ids {
			stage := 0
			for _, d := range done { // sorted by call stamp
				switch {
				case d.op.kind == v15OpLog && d.op.id == id:
					if stage == 0 {
						stage = 1
					} else if stage == 2 {
						kickBetween = true
					}
				case d.op.kind == v15OpKick && stage == 1:
					for _, k := range d.op.ids {
						if k == id {
							stage = 2
						}
					}
				}
			}
		}
		if overlapClear > 0 {
			classes = append(classes, "clear-overlaps-report")
		}
		if kickBetween {
			classes = append(classes, "kick-between-reports")
		}
		if refused > 0 {
			classes = append(classes, "some-report-refused")
		}
		nt := overlapClear > 0 || kickBetween
		var fp strings.Builder
		for _, d := range done {
			fmt.Fprintf(&fp, "%d:%d;", d.g, d.op.kind)
		}
		st.Case(nt, fp.String(), classes, func() string { return v15RenderHistory(done, "\x00", 60) })

		// ---- oracle 1: conservation, from observed values only
		final := done[len(done)-2].traffic
		for _, id := range ids {
			var acc, got v15TR
			kicks := 0
			ref := 0
			for _, d := range done {
				switch d.op.kind {
				case v15OpLog:
					if d.op.id == id {
						if d.ok {
							acc = acc.add(v15TR{d.op.tx, d.op.rx})
						} else {
							ref++
						}
					}
				case v15OpClear:
					got = got.add(d.traffic[id])
				case v15OpKick:
					for _, k := range d.op.ids {
						if k == id {
							kicks++
							break
						}
					}
				}
			}
			got = got.add(final[id])
			if got != acc {
				rt.Fatalf("C15: conservation violated for user %q: cleared snapshots + final snapshot = tx %d rx %d, accepted reports sum to tx %d rx %d\nhistory (ops touching %q):\n%s",
					id, got.Tx, got.Rx, acc.Tx, acc.Rx, id, v15RenderHistory(done, id, 400))
			}
			if ref > kicks {
				rt.Fatalf("C15: user %q: %d reports refused but only %d kick requests name it\nhistory:\n%s", id, ref, kicks, v15RenderHistory(done, id, 400))
			}
		}
		for id, n := range done[len(done)-1].online {
			if n < 0 {
				rt.Fatalf("C15: /online lists %q with negative count %d", id, n)
			}
		}

		// ---- oracle 2: linearizability of every per-user projection
		for _, id := range ids {
			ops := v15Project(done, id)
			res := porcupine.CheckOperationsTimeout(v15UserModel, ops, 60*time.Second)
			switch res {
			case porcupine.Ok:
			case porcupine.Illegal:
				rt.Fatalf("C15: history of user %q is not linearizable against the sequential model (no order of the overlapping operations explains the answers)\nhistory (ops touching %q; [call,return] stamps of a shared logical clock):\n%s",
					id, id, v15RenderHistory(done, id, 400))
			default:
				atomic.AddInt64(&undecided, 1)
				st.Excluded("linearizability search undecided within 60s (conservation still checked)")
			}
		}
	})
	st.Extra("linearizability_undecided", atomic.LoadInt64(&undecided))
}
