package trafficlogger

// C15 (c): online census and kick end to end. A real hysteria server (public API
// of core/v2/server) is configured with the stats server as its TrafficLogger;
// real clients (core/v2/client) connect over loopback UDP, authenticate (some are
// rejected), send TCP/UDP proxy traffic to fake outbounds, get closed by the
// client, by a kick (refused report) or by a server shutdown.
//
// Oracles
//   - /online == number of live authenticated connections per user (listed iff > 0)
//     at quiescent points. A quiescent point is reached when the server's own
//     EventLogger has reported Connect/Disconnect for every connection the
//     harness changed (liveness wait: generous deadline, expiry = inconclusive).
//   - the TrafficLogger handed to the server is a serialising monitor around the
//     stats server: every report's answer is compared with the kick model (first
//     report after a kick refused, exactly once), and every GET /traffic is made
//     under the monitor's lock and compared with the sum of accepted reports.
// No assertion depends on elapsed time.

import (
	"crypto/ecdsa"
	"crypto/elliptic"
	crand "crypto/rand"
	"crypto/tls"
	"crypto/x509"
	"crypto/x509/pkix"
	"errors"
	"fmt"
	"io"
	"math/big"
	"math/rand"
	"net"
	"net/http"
	"strings"
	"sync"
	"sync/atomic"
	"testing"
	"time"

	"github.com/apernet/hysteria/core/v2/client"
	coreErrs "github.com/apernet/hysteria/core/v2/errors"
	"github.com/apernet/hysteria/core/v2/server"
	"pgregory.net/rapid"
)

const (
	v15StallDeadline = 10 * time.Second // wait for the end of a connection before the server's health is witnessed
	v15LiveDeadline  = 30 * time.Second // liveness waits; expiry = inconclusive
	v15Grace         = 5 * time.Second  // tolerated lag between the server's event and the census
)

var (
	v15CertOnce sync.Once
	v15Cert     tls.Certificate
	v15CertErr  error
)

func v15TLS() (tls.Certificate, error) {
	v15CertOnce.Do(func() {
		key, err := ecdsa.GenerateKey(elliptic.P256(), crand.Reader)
		if err != nil {
			v15CertErr = err
			return
		}
		tmpl := &x509.Certificate{
			SerialNumber: big.NewInt(15),
			Subject:      pkix.Name{CommonName: "verif-c15"},
			NotBefore:    time.Now().Add(-time.Hour),
			NotAfter:     time.Now().Add(240 * time.Hour),
			KeyUsage:     x509.KeyUsageDigitalSignature,
			ExtKeyUsage:  []x509.ExtKeyUsage{x509.ExtKeyUsageServerAuth},
			DNSNames:     []string{"localhost"},
			IPAddresses:  []net.IP{net.IPv4(127, 0, 0, 1)},
		}
		der, err := x509.CreateCertificate(crand.Reader, tmpl, tmpl, &key.PublicKey, key)
		if err != nil {
			v15CertErr = err
			return
		}
		v15Cert = tls.Certificate{Certificate: [][]byte{der}, PrivateKey: key}
	})
	return v15Cert, v15CertErr
}

// ---- monitor: the TrafficLogger the server talks to ----

type v15Mon struct {
	mu      sync.Mutex
	inner   TrafficStatsServer
	model   *v15Model
	viol    string
	reports map[string]int
	refused map[string]int
	trace   []string
	gate    *v15Gate
	omu     sync.Mutex
	onN     map[string]int // LogOnlineState(id, true) calls that returned
	offN    map[string]int // LogOnlineState(id, false) calls that returned
}

func (m *v15Mon) onlineCalls(id string) (on, off int) {
	m.omu.Lock()
	defer m.omu.Unlock()
	return m.onN[id], m.offN[id]
}

func (m *v15Mon) LogTraffic(id string, tx, rx uint64) bool {
	m.mu.Lock()
	defer m.mu.Unlock()
	want := m.model.log(id, tx, rx)
	got := m.inner.LogTraffic(id, tx, rx)
	m.reports[id]++
	if !got {
		m.refused[id]++
	} else {
		m.model.accepted[id] = m.model.accepted[id].add(v15TR{tx, rx})
	}
	if len(m.trace) < 200 {
		m.trace = append(m.trace, fmt.Sprintf("report(%q,tx=%d,rx=%d)->%v", id, tx, rx, got))
	}
	if got != want && m.viol == "" {
		if want {
			m.viol = fmt.Sprintf("report of %q (tx=%d rx=%d) refused although no kick is pending for it", id, tx, rx)
		} else {
			m.viol = fmt.Sprintf("report of %q (tx=%d rx=%d) accepted although it is the first report after a kick", id, tx, rx)
		}
	}
	return got
}

func (m *v15Mon) LogOnlineState(id string, online bool) {
	if online {
		m.gate.enter(v15GOnline)
	} else {
		m.gate.enter(v15GOffline)
	}
	m.inner.LogOnlineState(id, online)
	m.omu.Lock()
	if m.onN == nil {
		m.onN, m.offN = map[string]int{}, map[string]int{}
	}
	if online {
		m.onN[id]++
	} else {
		m.offN[id]++
	}
	m.omu.Unlock()
	m.gate.leave()
}
func (m *v15Mon) TraceStream(s server.HyStream, st *server.StreamStats) {
	m.inner.TraceStream(s, st)
}
func (m *v15Mon) UntraceStream(s server.HyStream) { m.inner.UntraceStream(s) }

func (m *v15Mon) snapshot() (viol string, reports, refused map[string]int) {
	m.mu.Lock()
	defer m.mu.Unlock()
	reports, refused = map[string]int{}, map[string]int{}
	for k, v := range m.reports {
		reports[k] = v
	}
	for k, v := range m.refused {
		refused[k] = v
	}
	return m.viol, reports, refused
}

// ---- event log: the server's own view of connections ----

type v15Events struct {
	mu          sync.Mutex
	connects    map[string]int
	disconnects map[string]int
	lastErr     map[string]string
	gate        *v15Gate
}

func (e *v15Events) Connect(addr net.Addr, id string, tx uint64) {
	e.gate.enter(v15GConnectEv)
	e.mu.Lock()
	e.connects[addr.String()]++
	e.mu.Unlock()
	e.gate.leave()
}

func (e *v15Events) Disconnect(addr net.Addr, id string, err error) {
	e.gate.enter(v15GDisconnectEv)
	e.mu.Lock()
	e.disconnects[addr.String()]++
	e.lastErr[addr.String()] = fmt.Sprint(err)
	e.mu.Unlock()
	e.gate.leave()
}
func (e *v15Events) TCPRequest(addr net.Addr, id, reqAddr string)                    {}
func (e *v15Events) TCPError(addr net.Addr, id, reqAddr string, err error)           {}
func (e *v15Events) UDPRequest(addr net.Addr, id string, sessionID uint32, r string) {}
func (e *v15Events) UDPError(addr net.Addr, id string, sessionID uint32, err error)  {}
func (e *v15Events) counts(addr string) (c, d int, lastErr string) {
	e.mu.Lock()
	defer e.mu.Unlock()
	return e.connects[addr], e.disconnects[addr], e.lastErr[addr]
}

// ---- authenticator ----

type v15Authn struct{}

func (v15Authn) Authenticate(addr net.Addr, auth string, tx uint64) (bool, string) {
	if strings.HasPrefix(auth, "ok:") {
		return true, auth[3:]
	}
	return false, ""
}

// ---- outbound fakes ----

type v15Sink struct {
	tcpBytes atomic.Int64
	udpPkts  atomic.Int64
}

type v15Outbound struct{ sink *v15Sink }

func (o *v15Outbound) TCP(reqAddr string) (net.Conn, error) {
	return &v15Remote{sink: o.sink, echo: strings.HasPrefix(reqAddr, "echo"), ch: make(chan []byte, 256), closed: make(chan struct{})}, nil
}
func (o *v15Outbound) UDP(reqAddr string) (server.UDPConn, error) {
	return &v15RemoteUDP{sink: o.sink, closed: make(chan struct{})}, nil
}
func (o *v15Outbound) CheckUDP(reqAddr string) error { return nil }

type v15Remote struct {
	sink   *v15Sink
	echo   bool
	ch     chan []byte
	closed chan struct{}
	once   sync.Once
	rest   []byte
}

func (r *v15Remote) Read(b []byte) (int, error) {
	if len(r.rest) == 0 {
		select {
		case p := <-r.ch:
			r.rest = p
		case <-r.closed:
			return 0, net.ErrClosed
		}
	}
	n := copy(b, r.rest)
	r.rest = r.rest[n:]
	return n, nil
}

func (r *v15Remote) Write(b []byte) (int, error) {
	select {
	case <-r.closed:
		return 0, net.ErrClosed
	default:
	}
	if r.echo {
		select {
		case r.ch <- append([]byte(nil), b...):
		case <-r.closed:
			return 0, net.ErrClosed
		}
	}
	r.sink.tcpBytes.Add(int64(len(b)))
	return len(b), nil
}
func (r *v15Remote) Close() error                       { r.once.Do(func() { close(r.closed) }); return nil }
func (r *v15Remote) LocalAddr() net.Addr                { return &net.TCPAddr{IP: net.IPv4(127, 0, 0, 1), Port: 1} }
func (r *v15Remote) RemoteAddr() net.Addr               { return &net.TCPAddr{IP: net.IPv4(127, 0, 0, 1), Port: 2} }
func (r *v15Remote) SetDeadline(t time.Time) error      { return nil }
func (r *v15Remote) SetReadDeadline(t time.Time) error  { return nil }
func (r *v15Remote) SetWriteDeadline(t time.Time) error { return nil }

type v15RemoteUDP struct {
	sink   *v15Sink
	closed chan struct{}
	once   sync.Once
}

func (r *v15RemoteUDP) ReadFrom(b []byte) (int, string, error) {
	<-r.closed
	return 0, "", net.ErrClosed
}
func (r *v15RemoteUDP) WriteTo(b []byte, addr string) (int, error) {
	r.sink.udpPkts.Add(1)
	return len(b), nil
}
func (r *v15RemoteUDP) Close() error { r.once.Do(func() { close(r.closed) }); return nil }

// ---- client side ----

type v15ConnFactory struct{ local string }

func (f *v15ConnFactory) New(net.Addr) (net.PacketConn, error) {
	c, err := net.ListenUDP("udp", &net.UDPAddr{IP: net.IPv4(127, 0, 0, 1)})
	if err != nil {
		return nil, err
	}
	f.local = c.LocalAddr().String()
	return c, nil
}

type v15Client struct {
	n        int
	user     string
	c        client.Client // stock client, or
	raw      *v15Raw       // raw HTTP/3 client
	addr     string
	baseDisc int
}

func (c *v15Client) hangUp() {
	if c.raw != nil {
		c.raw.hangUp()
		return
	}
	_ = c.c.Close()
}

func (c *v15Client) kind() string {
	if c.raw != nil {
		return "raw "
	}
	return ""
}

func v15WaitUntil(deadline time.Duration, cond func() bool) bool {
	end := time.Now().Add(deadline)
	for {
		if cond() {
			return true
		}
		if time.Now().After(end) {
			return cond()
		}
		time.Sleep(time.Millisecond)
	}
}

// v15WithWatchdog runs f; if it does not return before the liveness deadline the run is inconclusive.
func v15WithWatchdog(what string, f func()) {
	done := make(chan struct{})
	go func() { defer close(done); f() }()
	select {
	case <-done:
	case <-time.After(v15LiveDeadline):
		vInconclusive("C15 e2e: " + what + " did not return within the liveness deadline")
	}
}

func TestVerifC15_OnlineE2E(t *testing.T) {
	st := newVStats("TestVerifC15_OnlineE2E")
	defer st.Flush()
	cert, err := v15TLS()
	if err != nil {
		vInconclusive("C15 e2e: cannot create a certificate: " + err.Error())
	}
	rapid.Check(t, func(rt *rapid.T) {
		rand.Seed(rapid.Int64().Draw(rt, "seed"))
		secret := rapid.SampledFrom([]string{"", "s3cret"}).Draw(rt, "secret")
		nIDs := rapid.IntRange(1, 3).Draw(rt, "nIDs")
		perm := rapid.Permutation([]string{"alice", "bob", "", "用户"}).Draw(rt, "ids")
		ids := perm[:nIDs]
		ghost := perm[nIDs]
		nOps := rapid.IntRange(4, 20).Draw(rt, "nOps")
		endByShutdown := rapid.Bool().Draw(rt, "endByShutdown")

		stats := NewTrafficStatsServer(secret)
		gate := &v15Gate{}
		mon := &v15Mon{inner: stats, model: v15NewModel(), reports: map[string]int{}, refused: map[string]int{}, gate: gate}
		ev := &v15Events{connects: map[string]int{}, disconnects: map[string]int{}, lastErr: map[string]string{}, gate: gate}
		sink := &v15Sink{}
		pc, err := net.ListenUDP("udp", &net.UDPAddr{IP: net.IPv4(127, 0, 0, 1)})
		if err != nil {
			vInconclusive("C15 e2e: cannot open a loopback UDP socket: " + err.Error())
		}
		srv, err := server.NewServer(&server.Config{
			TLSConfig:     server.TLSConfig{Certificates: []tls.Certificate{cert}},
			Conn:          pc,
			Outbound:      &v15Outbound{sink: sink},
			Authenticator: v15Authn{},
			EventLogger:   ev,
			TrafficLogger: mon,
		})
		if err != nil {
			vInconclusive("C15 e2e: server.NewServer: " + err.Error())
		}
		go srv.Serve()
		srvClosed := false
		var live []*v15Client
		var everyClient []client.Client
		var everyRaw []*v15Raw
		var idleRaw []*v15Client // raw connections that were never accepted: they must never count
		maxRaw := rapid.IntRange(0, 2).Draw(rt, "rawClients")
		ntReauth := false
		ntSlow := false
		defer func() {
			gate.open()
			for _, c := range everyClient {
				_ = c.Close()
			}
			for _, r := range everyRaw {
				r.release()
			}
			if !srvClosed {
				_ = srv.Close()
			}
		}()

		online := map[string]int64{} // the model: live authenticated connections per user
		var hist []string
		var opKinds []string
		classes := map[string]bool{}
		ntDisc, ntKick := false, false
		nClients := 0
		note := func(kind, format string, a ...any) {
			opKinds = append(opKinds, kind)
			hist = append(hist, fmt.Sprintf(format, a...))
		}
		render := func() string {
			mon.mu.Lock()
			tr := strings.Join(mon.trace, " ")
			mon.mu.Unlock()
			return "secret=" + fmt.Sprintf("%q", secret) + "\n  " + strings.Join(hist, "\n  ") + "\n  reports seen by the traffic logger: " + tr
		}
		fail := func(format string, a ...any) {
			rt.Helper()
			rt.Fatalf("C15: %s\nhistory:\n  %s", fmt.Sprintf(format, a...), render())
		}
		// case accounting runs also when the case fails (deferred: Fatalf unwinds through it)
		defer func() {
			if ntDisc {
				classes["disconnect-while-others-live"] = true
			}
			var cl []string
			for c := range classes {
				cl = append(cl, c)
			}
			st.Case(ntDisc || ntKick || ntReauth || ntSlow, strings.Join(opKinds, ","), cl, render)
		}()
		checkMonitor := func() {
			if v, _, _ := mon.snapshot(); v != "" {
				fail("%s", v)
			}
		}
		// census: called when every connection the harness touched has been reported by the server
		census := func(when string) {
			if !v15WaitUntil(v15LiveDeadline, gate.quiet) {
				vInconclusive("C15 e2e: a released logger call did not return within the liveness deadline")
			}
			for _, c := range live {
				if _, d, le := ev.counts(c.addr); d > c.baseDisc {
					vInconclusive(fmt.Sprintf("C15 e2e: connection #%d of %q was disconnected without the harness asking for it (%s)", c.n, c.user, le))
				}
			}
			var got map[string]int64
			var cmpErr error
			ok := v15WaitUntil(v15Grace, func() bool {
				status, g, err := v15GetOnline(stats, secret, v15AuthGood)
				if err != nil {
					cmpErr = err
					return false
				}
				if status != http.StatusOK {
					cmpErr = fmt.Errorf("authorised GET /online answered %d", status)
					return false
				}
				got = g
				cmpErr = v15CmpOnline(g, online, nil)
				return cmpErr == nil
			})
			if !ok {
				fail("%s: %v; /online = %s, live authenticated connections = %s", when, cmpErr, v15FmtOnline(got), v15FmtOnline(online))
			}
		}
		removeLive := func(c *v15Client) {
			for i := range live {
				if live[i] == c {
					live = append(live[:i], live[i+1:]...)
					break
				}
			}
			online[c.user]--
			if online[c.user] == 0 {
				delete(online, c.user)
			}
			if len(live) > 0 {
				ntDisc = true
			}
		}
		// witness: the full lifecycle of a fresh connection with a fresh, non-empty id on the same
		// server: auth -> online(true) + Connect, hang up -> online(false) + Disconnect.
		witnessN := 0
		var witnessRaws []*v15Raw
		defer func() {
			for _, r := range witnessRaws {
				r.release()
			}
		}()
		witness := func() error {
			witnessN++
			id := fmt.Sprintf("witness-%d", witnessN)
			raw, err := v15RawDial(pc.LocalAddr())
			if err != nil {
				return err
			}
			witnessRaws = append(witnessRaws, raw)
			on0, off0 := mon.onlineCalls(id)
			status, err := raw.auth("ok:" + id)
			if err != nil || status != v15StatusAuthOK {
				return fmt.Errorf("witness auth: status %d err %v", status, err)
			}
			if !v15WaitUntil(v15LiveDeadline, func() bool { cc, _, _ := ev.counts(raw.addr); on, _ := mon.onlineCalls(id); return cc > 0 && on > on0 }) {
				return fmt.Errorf("witness connection was not reported online")
			}
			raw.hangUp()
			if !v15WaitUntil(v15LiveDeadline, func() bool { _, d, _ := ev.counts(raw.addr); _, off := mon.onlineCalls(id); return d > 0 && off > off0 }) {
				return fmt.Errorf("witness connection was not reported offline")
			}
			return nil
		}
		// missingEnd is called when the server has not reported the end of connection c by the
		// stall deadline. It decides between "the environment is slow" (inconclusive) and "the
		// report is missing although the server is healthy" (violation): two fresh connections
		// made AFTER the deadline go through their full reported lifecycle while c's is still open.
		// Returns normally if c's end was reported after all.
		missingEnd := func(c *v15Client, why string) {
			gate.open()
			checkMonitor()
			arrived := func() bool { _, d, _ := ev.counts(c.addr); return d > c.baseDisc }
			msg := fmt.Sprintf("C15 e2e: the server did not report the disconnect of connection #%d (%s) within the liveness deadline", c.n, why)
			if srvClosed {
				if !v15WaitUntil(v15LiveDeadline, arrived) {
					vInconclusive(msg + " (server already shut down: no witness possible)")
				}
				return
			}
			if c.raw != nil && c.raw.qc.Context().Err() == nil {
				vInconclusive(msg + " (client side of the connection is not closed)")
			}
			for i := 0; i < 2; i++ {
				if arrived() {
					return
				}
				if err := witness(); err != nil {
					if arrived() {
						return
					}
					vInconclusive(msg + "; witness connection failed too: " + err.Error())
				}
			}
			if arrived() {
				return
			}
			on, off := mon.onlineCalls(c.user)
			classes["witnessed-stall"] = true
			fail("online(true) for id %q never balanced by online(false): connection #%d (%s) ended on the client side at least %v ago, and the full lifecycle (online, Connect, offline, Disconnect) of 2 later connections was reported meanwhile; LogOnlineState(%q) calls so far: %d online, %d offline; /online still lists what it lists below",
				c.user, c.n, why, v15StallDeadline, c.user, on, off)
		}
		awaitDisconnect := func(c *v15Client, why string) {
			if !v15WaitUntil(v15StallDeadline, func() bool { _, d, _ := ev.counts(c.addr); return d > c.baseDisc }) {
				missingEnd(c, why)
			}
		}
		// traffic on one connection; returns after the report(s) were made
		traffic := func(c *v15Client, udp bool, n int, echo bool) {
			_, _, refused0 := mon.snapshot()
			mon.mu.Lock()
			kickPending := mon.model.kicked[c.user]
			mon.mu.Unlock()
			payload := make([]byte, n)
			for i := range payload {
				payload[i] = byte(i*31 + n)
			}
			tcp0, udp0 := sink.tcpBytes.Load(), sink.udpPkts.Load()
			var opErr error
			v15WithWatchdog("proxy traffic", func() {
				if udp {
					u, err := c.c.UDP()
					if err != nil {
						opErr = err
						return
					}
					defer u.Close()
					opErr = u.Send(payload, "udp.test:53")
					return
				}
				addr := "sink.test:80"
				if echo {
					addr = "echo.test:80"
				}
				conn, err := c.c.TCP(addr)
				if err != nil {
					opErr = err
					return
				}
				defer conn.Close()
				if _, err := conn.Write(payload); err != nil {
					opErr = err
					return
				}
				if echo && !kickPending {
					back := make([]byte, n)
					if _, err := io.ReadFull(conn, back); err != nil {
						opErr = err
					}
				}
			})
			if kickPending {
				// the first report after the kick must be refused, which disconnects this connection
				got := v15WaitUntil(v15LiveDeadline, func() bool {
					v, _, r := mon.snapshot()
					return v != "" || r[c.user] > refused0[c.user]
				})
				checkMonitor()
				if !got {
					vInconclusive(fmt.Sprintf("C15 e2e: no traffic report of %q reached the traffic logger (client error: %v)", c.user, opErr))
				}
				awaitDisconnect(c, "its report was refused")
				note("traffic-kicked", "#%d(%q) sends %d bytes udp=%v -> report refused, server disconnected it", c.n, c.user, n, udp)
				removeLive(c)
				ntKick = true
				classes["kick-consumed-by-real-report"] = true
				if udp {
					classes["kicked-on-udp"] = true
				} else {
					classes["kicked-on-tcp"] = true
				}
				return
			}
			if opErr != nil {
				checkMonitor()
				vInconclusive(fmt.Sprintf("C15 e2e: proxy traffic on live connection #%d failed: %v", c.n, opErr))
			}
			arrived := v15WaitUntil(v15LiveDeadline, func() bool {
				if udp {
					return sink.udpPkts.Load() > udp0
				}
				return sink.tcpBytes.Load() >= tcp0+int64(n)
			})
			checkMonitor()
			if !arrived {
				vInconclusive("C15 e2e: proxied bytes did not reach the fake outbound within the liveness deadline")
			}
			note("traffic", "#%d(%q) sends %d bytes udp=%v echo=%v", c.n, c.user, n, udp, echo)
			if udp {
				classes["udp-traffic"] = true
			} else {
				classes["tcp-traffic"] = true
			}
		}

		for step := 0; step < nOps; step++ {
			// choose an operation that is possible in the current state
			type cand struct {
				name string
				w    int
			}
			cands := []cand{{"connect", 6}, {"reject", 2}, {"kick", 3}, {"traffic?", 2}}
			if len(live) >= 6 {
				cands[0].w = 0
			}
			var stock, raws []*v15Client
			for _, c := range live {
				if c.raw != nil {
					raws = append(raws, c)
				} else {
					stock = append(stock, c)
				}
			}
			if len(live) > 0 {
				cands = append(cands, cand{"close", 4}, cand{"slowClose", 3})
			}
			if len(live) < 6 {
				cands = append(cands, cand{"slowConnect", 3})
			}
			if len(stock) > 0 {
				cands = append(cands, cand{"send", 7})
			}
			if len(everyRaw) < maxRaw && len(live) < 6 {
				cands = append(cands, cand{"rawConnect", 4}, cand{"rawAuthRejected", 2})
			}
			if len(raws)+len(idleRaw) > 0 {
				cands = append(cands, cand{"rawReauth", 7})
			}
			if len(idleRaw) > 0 {
				cands = append(cands, cand{"rawCloseIdle", 2})
			}
			tot := 0
			for _, c := range cands {
				tot += c.w
			}
			r := rapid.IntRange(0, tot-1).Draw(rt, "op")
			k := 0
			for r >= cands[k].w {
				r -= cands[k].w
				k++
			}
			switch cands[k].name {
			case "connect", "reject":
				good := cands[k].name == "connect"
				user := rapid.SampledFrom(ids).Draw(rt, "user")
				auth := "ok:" + user
				if !good {
					auth = "no:" + user
				}
				cf := &v15ConnFactory{}
				var c client.Client
				var cerr error
				v15WithWatchdog("client.NewClient", func() {
					c, _, cerr = client.NewClient(&client.Config{
						ConnFactory: cf,
						ServerAddr:  pc.LocalAddr(),
						Auth:        auth,
						TLSConfig:   client.TLSConfig{InsecureSkipVerify: true},
					})
				})
				nClients++
				if !good {
					var ae coreErrs.AuthError
					if cerr == nil {
						everyClient = append(everyClient, c)
						vInconclusive("C15 e2e: a client the authenticator rejected was let in (not this property)")
					}
					if !errors.As(cerr, &ae) {
						vInconclusive("C15 e2e: rejected client failed for another reason: " + cerr.Error())
					}
					note("reject", "#%d connects as %q with a bad credential -> rejected", nClients, user)
					classes["rejected-auth"] = true
					if online[user] > 0 {
						classes["rejected-while-user-online"] = true
					}
					break
				}
				if cerr != nil {
					vInconclusive("C15 e2e: client.NewClient failed: " + cerr.Error())
				}
				everyClient = append(everyClient, c)
				cl := &v15Client{n: nClients, user: user, c: c, addr: cf.local}
				_, cl.baseDisc, _ = ev.counts(cl.addr)
				// the server reports the connection after it answered the client
				if !v15WaitUntil(v15LiveDeadline, func() bool { cc, _, _ := ev.counts(cl.addr); return cc > 0 }) {
					vInconclusive("C15 e2e: the server did not report the new connection within the liveness deadline")
				}
				live = append(live, cl)
				online[user]++
				note("connect", "#%d connects as %q -> authenticated", cl.n, user)
				if online[user] > 1 {
					classes["multi-conn-user"] = true
				}
			case "slowConnect":
				// the loggers are slow while a connection authenticates; the client may hang up as
				// soon as its auth round trip returned
				user := rapid.SampledFrom(ids).Draw(rt, "user")
				useRaw := len(everyRaw) < maxRaw && rapid.Bool().Draw(rt, "raw")
				slow := rapid.IntRange(1, 3).Draw(rt, "slow") // 1 online, 2 connect event, 3 both
				closeNow := rapid.IntRange(0, 3).Draw(rt, "closeNow") != 0
				var slowNames []string
				if slow&1 != 0 {
					gate.arm(v15GOnline)
					slowNames = append(slowNames, v15GNames[v15GOnline])
				}
				if slow&2 != 0 {
					gate.arm(v15GConnectEv)
					slowNames = append(slowNames, v15GNames[v15GConnectEv])
				}
				nClients++
				cl := &v15Client{n: nClients, user: user}
				cf := &v15ConnFactory{}
				var aerr error
				var status int
				authDone := make(chan struct{})
				go func() {
					defer close(authDone)
					if useRaw {
						cl.raw, aerr = v15RawDial(pc.LocalAddr())
						if aerr == nil {
							status, aerr = cl.raw.auth("ok:" + user)
						}
						return
					}
					cl.c, _, aerr = client.NewClient(&client.Config{
						ConnFactory: cf,
						ServerAddr:  pc.LocalAddr(),
						Auth:        "ok:" + user,
						TLSConfig:   client.TLSConfig{InsecureSkipVerify: true},
					})
				}()
				// hold the parked call(s) until the auth round trip returns; if the answer waits for
				// the logger (it does on a server that logs inside the request handler), give up the
				// hold after v15Hold
				gaveUp := 0
				authEnd := time.Now().Add(v15LiveDeadline)
			waitAuth:
				for {
					select {
					case <-authDone:
						break waitAuth
					case <-time.After(2 * time.Millisecond):
					}
					if gate.parkedFor() >= v15Hold {
						gate.releaseParked()
						gaveUp++
					}
					if time.Now().After(authEnd) {
						gate.open()
						vInconclusive("C15 e2e: authentication with slow loggers did not return within the liveness deadline")
					}
				}
				if cl.raw != nil {
					everyRaw = append(everyRaw, cl.raw)
					cl.addr = cl.raw.addr
				}
				if cl.c != nil {
					everyClient = append(everyClient, cl.c)
					cl.addr = cf.local
				}
				if aerr != nil || (useRaw && status != v15StatusAuthOK) {
					gate.open()
					vInconclusive(fmt.Sprintf("C15 e2e: authentication with slow loggers failed: status %d err %v", status, aerr))
				}
				stillParked := gate.parked()
				if closeNow {
					cl.hangUp()
					if stillParked > 0 {
						// the answer did not wait for the logger: let the server see the disconnect
						// while the logger is still slow (bounded)
						v15WaitUntil(v15Hold*5, func() bool { _, d, _ := ev.counts(cl.addr); return d > 0 || gate.parked() == 0 })
						classes["hangup-while-online-log-parked"] = true
					}
				}
				// settle: release whatever parks, until the server has reported everything
				settled := v15WaitUntil(v15StallDeadline, func() bool {
					if gate.parked() > 0 {
						gate.releaseParked()
					}
					cc, d, _ := ev.counts(cl.addr)
					return cc > 0 && (!closeNow || d > 0) && gate.quiet()
				})
				gate.open()
				if !settled {
					if cc, _, _ := ev.counts(cl.addr); cc > 0 && closeNow && v15WaitUntil(v15LiveDeadline, gate.quiet) {
						// reported online, hung up, end not reported
						missingEnd(cl, "the client hung up right after its auth answer")
						settled = true
					}
				}
				if !settled {
					vInconclusive("C15 e2e: the server did not report a connection made with slow loggers within the liveness deadline")
				}
				if closeNow {
					note("slowConnect", "%s#%d authenticates as %q while %s is slow (hold given up %d times, %d still parked at the answer), hangs up at once", cl.kind(), cl.n, user, strings.Join(slowNames, "+"), gaveUp, stillParked)
					classes["slow-connect-then-hangup"] = true
					ntSlow = true
				} else {
					live = append(live, cl)
					online[user]++
					note("slowConnect", "%s#%d authenticates as %q while %s is slow (hold given up %d times), stays", cl.kind(), cl.n, user, strings.Join(slowNames, "+"), gaveUp)
					classes["slow-connect-stays"] = true
				}
			case "slowClose":
				// the loggers are slow while a connection ends; meanwhile another connection of the
				// same user may arrive
				c := live[rapid.IntRange(0, len(live)-1).Draw(rt, "which")]
				slow := rapid.IntRange(1, 3).Draw(rt, "slow") // 1 offline, 2 disconnect event, 3 both
				nested := len(live) < 6 && rapid.Bool().Draw(rt, "nested")
				var slowNames []string
				if slow&1 != 0 {
					gate.arm(v15GOffline)
					slowNames = append(slowNames, v15GNames[v15GOffline])
				}
				if slow&2 != 0 {
					gate.arm(v15GDisconnectEv)
					slowNames = append(slowNames, v15GNames[v15GDisconnectEv])
				}
				c.hangUp()
				if !v15WaitUntil(v15StallDeadline, func() bool { return gate.parked() > 0 }) {
					missingEnd(c, "the client closed it; loggers armed to be slow") // opens the gate
				}
				var nc *v15Client
				if nested {
					cf := &v15ConnFactory{}
					var c2 client.Client
					var cerr error
					v15WithWatchdog("client.NewClient", func() {
						c2, _, cerr = client.NewClient(&client.Config{
							ConnFactory: cf,
							ServerAddr:  pc.LocalAddr(),
							Auth:        "ok:" + c.user,
							TLSConfig:   client.TLSConfig{InsecureSkipVerify: true},
						})
					})
					if cerr != nil {
						gate.open()
						vInconclusive("C15 e2e: client.NewClient failed: " + cerr.Error())
					}
					everyClient = append(everyClient, c2)
					nClients++
					nc = &v15Client{n: nClients, user: c.user, c: c2, addr: cf.local}
					_, nc.baseDisc, _ = ev.counts(nc.addr)
				}
				settled := v15WaitUntil(v15LiveDeadline, func() bool {
					if gate.parked() > 0 {
						gate.releaseParked()
					}
					_, d, _ := ev.counts(c.addr)
					ncOK := true
					if nc != nil {
						cc, _, _ := ev.counts(nc.addr)
						ncOK = cc > 0
					}
					return d > c.baseDisc && ncOK && gate.quiet()
				})
				gate.open()
				if !settled {
					if nc == nil || func() bool { cc, _, _ := ev.counts(nc.addr); return cc > 0 }() {
						missingEnd(c, "the client closed it while the loggers were slow")
						settled = v15WaitUntil(v15LiveDeadline, gate.quiet)
					}
				}
				if !settled {
					vInconclusive("C15 e2e: the server did not report a disconnect made with slow loggers within the liveness deadline")
				}
				note("slowClose", "%s#%d(%q) closed by the client while %s is slow", c.kind(), c.n, c.user, strings.Join(slowNames, "+"))
				removeLive(c)
				classes["slow-close"] = true
				if nc != nil {
					live = append(live, nc)
					online[nc.user]++
					note("connect", "#%d connects as %q while that offline notification is parked -> authenticated", nc.n, nc.user)
					classes["connect-during-parked-offline"] = true
					ntSlow = true
				}
			case "close":
				c := live[rapid.IntRange(0, len(live)-1).Draw(rt, "which")]
				c.hangUp()
				awaitDisconnect(c, "the client closed it")
				note("close", "%s#%d(%q) closed by the client", c.kind(), c.n, c.user)
				removeLive(c)
				classes["client-close"] = true
				if c.raw != nil {
					classes["raw-close"] = true
				}
			case "rawConnect", "rawAuthRejected":
				var raw *v15Raw
				var derr error
				v15WithWatchdog("raw QUIC dial", func() { raw, derr = v15RawDial(pc.LocalAddr()) })
				if derr != nil {
					vInconclusive("C15 e2e: raw client: " + derr.Error())
				}
				everyRaw = append(everyRaw, raw)
				nClients++
				cl := &v15Client{n: nClients, raw: raw, addr: raw.addr}
				user := rapid.SampledFrom(ids).Draw(rt, "user")
				if cands[k].name == "rawAuthRejected" {
					n := rapid.IntRange(1, 3).Draw(rt, "attempts")
					for i := 0; i < n; i++ {
						var status int
						var aerr error
						v15WithWatchdog("raw auth request", func() { status, aerr = raw.auth("no:" + user) })
						if aerr != nil {
							vInconclusive("C15 e2e: raw auth request failed: " + aerr.Error())
						}
						if status == v15StatusAuthOK {
							vInconclusive("C15 e2e: a credential the authenticator rejects was answered 233 (not this property)")
						}
					}
					note("rawAuthRejected", "raw #%d sends %d rejected auth requests for %q", cl.n, n, user)
					classes["raw-rejected-only"] = true
					if rapid.Bool().Draw(rt, "closeNow") {
						raw.hangUp()
						note("rawCloseIdle", "raw #%d (never accepted) closed", cl.n)
					} else {
						idleRaw = append(idleRaw, cl)
					}
					break
				}
				c0, d0, _ := ev.counts(cl.addr)
				var status int
				var aerr error
				v15WithWatchdog("raw auth request", func() { status, aerr = raw.auth("ok:" + user) })
				if aerr != nil {
					vInconclusive("C15 e2e: raw auth request failed: " + aerr.Error())
				}
				if status != v15StatusAuthOK {
					vInconclusive(fmt.Sprintf("C15 e2e: raw auth with a good credential answered %d", status))
				}
				if !v15WaitUntil(v15LiveDeadline, func() bool { cc, _, _ := ev.counts(cl.addr); return cc > c0 }) {
					vInconclusive("C15 e2e: the server did not report the new raw connection within the liveness deadline")
				}
				cl.user, cl.baseDisc = user, d0
				live = append(live, cl)
				online[user]++
				note("rawConnect", "raw #%d authenticates as %q -> 233", cl.n, user)
				classes["raw-connect"] = true
			case "rawReauth":
				pool := append(append([]*v15Client{}, raws...), idleRaw...)
				c := pool[rapid.IntRange(0, len(pool)-1).Draw(rt, "which")]
				n := rapid.IntRange(1, 3).Draw(rt, "attempts")
				for i := 0; i < n; i++ {
					user := rapid.SampledFrom(ids).Draw(rt, "user")
					good := rapid.Bool().Draw(rt, "good")
					cred := "no:" + user
					if good {
						cred = "ok:" + user
					}
					wasCounted := c.user != "" || func() bool {
						for _, l := range live {
							if l == c {
								return true
							}
						}
						return false
					}()
					c0, d0, _ := ev.counts(c.addr)
					var status int
					var aerr error
					v15WithWatchdog("raw auth request", func() { status, aerr = c.raw.auth(cred) })
					if aerr != nil {
						vInconclusive("C15 e2e: repeated raw auth request failed: " + aerr.Error())
					}
					note("rawReauth", "raw #%d (counted=%v as %q) sends another auth request: credential %q -> %d", c.n, wasCounted, c.user, cred, status)
					if wasCounted {
						// already counted: nothing it sends changes the number of connections
						ntReauth = true
						classes["reauth-on-authenticated-conn"] = true
						if good && user != c.user {
							classes["reauth-as-other-user"] = true
						}
						continue
					}
					if !good {
						if status == v15StatusAuthOK {
							vInconclusive("C15 e2e: a credential the authenticator rejects was answered 233 (not this property)")
						}
						continue
					}
					if status != v15StatusAuthOK {
						vInconclusive(fmt.Sprintf("C15 e2e: raw auth with a good credential answered %d", status))
					}
					// first accepted auth of this connection: from now on it counts, once
					if !v15WaitUntil(v15LiveDeadline, func() bool { cc, _, _ := ev.counts(c.addr); return cc > c0 }) {
						vInconclusive("C15 e2e: the server did not report the new raw connection within the liveness deadline")
					}
					c.user, c.baseDisc = user, d0
					for j := range idleRaw {
						if idleRaw[j] == c {
							idleRaw = append(idleRaw[:j], idleRaw[j+1:]...)
							break
						}
					}
					live = append(live, c)
					online[user]++
					classes["accepted-after-rejections"] = true
				}
			case "rawCloseIdle":
				j := rapid.IntRange(0, len(idleRaw)-1).Draw(rt, "which")
				c := idleRaw[j]
				idleRaw = append(idleRaw[:j], idleRaw[j+1:]...)
				c.raw.hangUp()
				note("rawCloseIdle", "raw #%d (never accepted) closed", c.n)
				classes["raw-close-never-accepted"] = true
			case "send":
				c := stock[rapid.IntRange(0, len(stock)-1).Draw(rt, "which")]
				udp := rapid.IntRange(0, 2).Draw(rt, "udp") == 0
				n := rapid.IntRange(1, 1100).Draw(rt, "n")
				echo := rapid.Bool().Draw(rt, "echo")
				traffic(c, udp, n, echo)
			case "kick":
				// mostly users that exist, so that a real report meets the kick
				cand := append(append(append([]string{}, ids...), ids...), ghost)
				ks := rapid.SliceOfN(rapid.SampledFrom(cand), 1, 2).Draw(rt, "kick")
				mon.mu.Lock()
				status := v15PostKick(stats, secret, v15AuthGood, ks)
				if status == http.StatusOK {
					mon.model.kick(ks)
				}
				mon.mu.Unlock()
				note("kick", "POST /kick %q -> %d", ks, status)
				if status != http.StatusOK {
					fail("authorised POST /kick answered %d", status)
				}
				for _, id := range ks {
					if online[id] == 0 {
						classes["kick-offline-user"] = true
					}
				}
			case "traffic?":
				cp := rapid.SampledFrom([]string{"", "1"}).Draw(rt, "clear")
				mon.mu.Lock()
				status, got, gerr := v15GetTraffic(stats, secret, v15AuthGood, cp)
				var cmp error
				if gerr == nil && status == http.StatusOK {
					cmp = v15CmpTraffic(got, mon.model.stats)
					if cp == "1" {
						for id, v := range got {
							mon.model.cleared[id] = mon.model.cleared[id].add(v)
						}
						mon.model.clear()
					}
				}
				mon.mu.Unlock()
				note("traffic?", "GET /traffic clear=%q -> %d %s", cp, status, v15FmtTraffic(got))
				if gerr != nil {
					fail("%v", gerr)
				}
				if status != http.StatusOK {
					fail("authorised GET /traffic answered %d", status)
				}
				if cmp != nil {
					fail("%v", cmp)
				}
			}
			checkMonitor()
			census(fmt.Sprintf("after step %d (%s)", step+1, hist[len(hist)-1]))
		}

		// ---- the end: every remaining connection goes away
		for _, c := range idleRaw {
			c.raw.hangUp()
			note("rawCloseIdle", "raw #%d (never accepted) closed", c.n)
		}
		idleRaw = nil
		if endByShutdown && len(live) > 0 {
			_ = srv.Close()
			srvClosed = true
			rest := append([]*v15Client{}, live...)
			for _, c := range rest {
				awaitDisconnect(c, "the server was shut down")
				removeLive(c)
			}
			note("shutdown", "server closed with %d live connections", len(rest))
			classes["server-shutdown"] = true
			census("after the server shut down")
		} else {
			for len(live) > 0 {
				c := live[len(live)-1]
				c.hangUp()
				awaitDisconnect(c, "the client closed it")
				note("close", "%s#%d(%q) closed by the client", c.kind(), c.n, c.user)
				removeLive(c)
				census("after closing " + hist[len(hist)-1])
			}
		}
		// conservation against what the server really logged
		mon.mu.Lock()
		status, final, gerr := v15GetTraffic(stats, secret, v15AuthGood, "")
		total := map[string]v15TR{}
		for id, v := range mon.model.cleared {
			total[id] = total[id].add(v)
		}
		for id, v := range final {
			total[id] = total[id].add(v)
		}
		cons := v15CmpTraffic(total, mon.model.accepted)
		mon.mu.Unlock()
		if gerr != nil || status != http.StatusOK {
			fail("final GET /traffic: status %d err %v", status, gerr)
		}
		if cons != nil {
			fail("conservation (cleared snapshots + final snapshot vs reports the server made and got accepted): %v", cons)
		}
		checkMonitor()

	})
}
