#!/usr/bin/env python3
"""Normalise a seeder's free-form demo_cmd.txt into the 3-line machine format (# dir / # dest / command)."""
import re, sys, os
d = sys.argv[1]
txt = open(os.path.join(d, "demo_cmd.txt")).read()
if re.match(r"# dir: \S+\n# dest: \S+\n\S", txt):
    print("already normalised:", d); sys.exit(0)
m = None
for m in re.finditer(r"go test (\./\S+)([^\n&|;)]*)", txt):
    pass
if not m:
    print("NO go test COMMAND in", d); sys.exit(1)
pkg, rest = m.group(1), m.group(2)
run = re.search(r"-run[ =]('?[^ ']+'?)", rest)
mod = None
mm = re.findall(r"cd\s+\S*?\b(core|extras|app)\b(?=[\s&;)]|$)", txt)
if mm:
    mod = mm[-1]
if not mod:
    pm = re.search(r"^\+\+\+ b/(core|extras|app)/", open(os.path.join(d, "patch.diff")).read(), re.M)
    mod = pm.group(1)
dest = mod + "/" + pkg.strip("./").rstrip("/")
cmd = "go test %s -run %s -count=1" % (pkg, run.group(1).strip("'") if run else "TestSeeded")
open(os.path.join(d, "demo_cmd.txt.orig"), "w").write(txt)
open(os.path.join(d, "demo_cmd.txt"), "w").write("# dir: %s\n# dest: %s\n%s\n" % (mod, dest, cmd))
print(d, "->", mod, dest, cmd)
