#!/usr/bin/env python3
"""Prints the prompt for an independent 'seeding' sub-agent: property text + scratch worktree only (nothing from /verif)."""
import json, sys, os
pid, wt = sys.argv[1], sys.argv[2]
round2 = len(sys.argv) > 3 and sys.argv[3] == "2"
V = os.path.dirname(os.path.dirname(os.path.abspath(__file__)))
p = next(json.loads(l) for l in open(os.path.join(V, "properties.jsonl")) if json.loads(l)["id"] == pid)
EXTRA = ("EMPHASIS FOR THIS ROUND: at least two of your changes must need one of the following to manifest, and none may be a plain single-site off-by-one or a dropped check: (a) a specific interleaving of goroutines or a fault/close/timeout at a particular instant; (b) reuse of a resource across logically separate uses - object pools, recycled buffers, caches, retained slices/aliasing, state kept in a longer-lived object than intended; (c) two cooperating sites that each look correct alone; (d) an unusual but legal protocol feature, header, option or configuration combination that the project's own client never produces; (e) an error path or shutdown path. Look beyond the first file listed: callers, wrappers and configuration plumbing count.\n\n" if round2 else "")
print(f"""You are given a scratch git worktree of the Go project apernet/hysteria (Hysteria 2: a censorship-resistant TCP/UDP proxy over a customized QUIC) at {wt} . Work ONLY inside that directory. Do not read, list or use anything under /verif, and do not touch /repo. The sandbox is offline (no network, nothing can be downloaded). Go: run commands from inside a module directory ({wt}/core, {wt}/extras or {wt}/app); plain `go build ./...` / `go test ./<pkg>/...` work there (the right toolchain, Go 1.25, is selected automatically; if `go` complains about downloading a toolchain use /root/go/pkg/mod/golang.org/toolchain@v0.0.1-go1.25.0.linux-amd64/bin/go with GOTOOLCHAIN=local GOPROXY=off GOFLAGS=). Some tests in the repo fail offline for unrelated reasons (those needing external python clients, DNS or network); judge "passes the existing tests" by comparing with the unmodified tree.

Here is a semantic property the project is supposed to satisfy:

  Title: {p['title']}
  Statement: {p['statement']}
  Quantified over: {p['quantifier']['text']}
  Relevant files (starting points): {', '.join(p['anchors']['files'])}

YOUR TASK: produce changes to the project's NON-TEST source code that each BREAK this property while
  (1) still compiling (`go build ./...` and `go vet` of the touched packages),
  (2) still passing the project's existing test suite — at minimum run all tests of the packages you touch, plus `go test ./internal/integration_tests/... -run 'Test' -short` in core/ when you touch core/ code paths used end-to-end (skip the long stress tests if they take minutes: use -run with the relevant test names) — same pass/fail set as the unmodified tree,
  (3) needing something SPECIFIC to manifest: a particular interleaving, a fault or close at a particular point, a multi-step sequence of operations, an unusual but legal input (boundary length, rare encoding, cache eviction, counter wrap), or two cooperating sites that each look fine alone. NOT something that ordinary use or a trivial smoke test would expose at once.
Make each change look like a plausible refactor, optimisation or well-meant bug fix that a real contributor might submit and a reviewer might wave through. Keep each change small (a few lines to a few dozen).

For each change also write a DEMONSTRATION: a Go test file (placed next to the code, e.g. <pkg>/seeded_demo_test.go; it may be an in-package test) or a small program that FAILS (or panics) with your change and PASSES on the unmodified tree. Verify both directions yourself. NEVER use `git stash` (the stash is shared by all worktrees of the repository and other people work in sibling worktrees concurrently): save your change with `git diff -- <source files> > /tmp/$(basename {wt})-change.diff`, remove it with `git checkout -- <source files>`, run the demo, restore it with `git apply /tmp/...-change.diff`, run again. If `git status` ever shows modifications in files you did not touch, discard them with `git checkout -- <file>`. The core integration tests bind the fixed port 127.0.0.1:14514; other people may run them at the same time, so run them inside a private network namespace: `unshare -n bash -c 'ip link set lo up; go test ./internal/integration_tests/ -run <names>'`.

{EXTRA}Produce up to 3 DISTINCT changes (different mechanisms / different parts of the property), each independently applicable to the pristine tree. For change k (k = 1, 2, 3) deliver a directory {wt}/SEED/k/ containing:
  - patch.diff  : `git diff` of the source change only (NOT including the demo test), applicable with `git apply` from the repository root of a pristine tree;
  - the demonstration file(s), plus demo_cmd.txt with the exact command to run it and from which directory;
  - meta.json   : {{"property": "{pid}", "summary": "...what the change does and why it breaks the property...", "needs_to_manifest": "...the specific input/sequence/interleaving...", "looks_like": "...refactor/optimisation/fix it is disguised as...", "existing_tests_run": ["...commands..."], "demo_fails_with_change": true, "demo_passes_without_change": true}}
After saving each change's files, restore the worktree to pristine (`git checkout -- . && git clean -fd -e SEED`) before starting the next one. At the very end the worktree must be pristine except for the SEED/ directory. Your final message: a short list of the changes produced (one line each) and anything you could not do.""")
