"""Driver for the hysteria property checks (see /verif/DESIGN.md section 1.3)."""
import argparse
import concurrent.futures as cf
import glob
import hashlib
import json
import os
import re
import shutil
import subprocess
import sys
import time

VERIF = os.path.dirname(os.path.dirname(os.path.abspath(__file__)))
REPO = os.environ.get("VERIF_REPO", "/repo")
WORK = os.environ.get("VERIF_WORK", os.path.join(VERIF, ".work"))
OUT = os.environ.get("VERIF_OUT", VERIF)  # evidence/ and replays/ land here (scratch runs against mutants set it)
JOBS = int(os.environ.get("VERIF_JOBS", "0") or 0) or (os.cpu_count() or 4)

sys.path.insert(0, os.path.join(VERIF, "harness"))
import registry  # noqa: E402

EXTRA_REQ = {
    "pgregory.net/rapid": "v1.3.0",
    "github.com/anishathalye/porcupine": "v1.3.0",
}


def log(*a):
    print(*a, flush=True)


# ----------------------------------------------------------------- toolchain
def find_go():
    """The repo needs go1.25.0; it is in the module cache. Never fetch."""
    cands = []
    modcache = os.environ.get("GOMODCACHE") or os.path.expanduser("~/go/pkg/mod")
    for root in (modcache, "/root/go/pkg/mod"):
        cands.append(os.path.join(root, "golang.org/toolchain@v0.0.1-go1.25.0.linux-amd64/bin/go"))
    for c in cands:
        if os.path.exists(c):
            return c, {"GOTOOLCHAIN": "local"}
    # fall back to whatever `go` resolves to inside /repo (auto toolchain switch)
    return shutil.which("go") or "go", {"GOTOOLCHAIN": "auto"}


def go_env():
    go, extra = find_go()
    env = dict(os.environ)
    env.update(extra)
    env["GOPROXY"] = "off"
    env["GOFLAGS"] = ""
    env["GONOSUMDB"] = "*"
    env["GONOSUMCHECK"] = "1"
    env["GOFLAGS"] = ""
    env.pop("GOSUMDB", None)
    env["GONOSUMDB"] = "*"
    env["GOPRIVATE"] = "*"
    return go, env


def h1_of_gomod(path):
    h = hashlib.sha256(open(path, "rb").read()).hexdigest()
    import base64
    return "h1:" + base64.b64encode(hashlib.sha256(("%s  go.mod\n" % h).encode()).digest()).decode()


def extra_sum_lines():
    """go.sum lines for the harness-only modules, taken from the module cache."""
    out = []
    modcache = os.environ.get("GOMODCACHE") or os.path.expanduser("~/go/pkg/mod")
    for mod, ver in EXTRA_REQ.items():
        d = os.path.join(modcache, "cache/download", mod, "@v")
        zh = open(os.path.join(d, ver + ".ziphash")).read().strip()
        out.append("%s %s %s" % (mod, ver, zh))
        out.append("%s %s/go.mod %s" % (mod, ver, h1_of_gomod(os.path.join(d, ver + ".mod"))))
    return out


# --------------------------------------------------------------------- build
def pkg_clauses(files):
    names = set()
    for f in files:
        for line in open(f):
            m = re.match(r"^package\s+(\w+)", line)
            if m:
                names.add(m.group(1))
                break
    return names


def build_unit(unit, wdir, race=False, prefixes=("",), fuzz=False):
    """unit = 'mod:pkg/path'. Only harness files whose name starts with one of
    `prefixes` (the property's own files plus shared_*) are compiled in, so a
    harness that stops compiling after an internal rename cannot take other
    properties' checks down with it. Returns path of the test binary or raises."""
    mod, pkg = unit.split(":")
    hdir = os.path.join(VERIF, "harness", mod, pkg)
    files = sorted(f for f in glob.glob(os.path.join(hdir, "*_test.go"))
                   if any(os.path.basename(f).startswith(p) for p in prefixes))
    if not files:
        raise RuntimeError("no harness files in " + hdir)
    key = (mod + "_" + pkg).replace("/", "_") + ("_race" if race else "") + ("_fuzz" if fuzz else "")
    bdir = os.path.join(wdir, "build", key)
    os.makedirs(bdir, exist_ok=True)
    replace = {}
    for f in files:
        replace[os.path.join(REPO, mod, pkg, "zz_verif_" + os.path.basename(f))] = f
    tmpl = open(os.path.join(VERIF, "harness", "common", "vstats.go.tmpl")).read()
    for name in pkg_clauses(files):
        p = os.path.join(bdir, "vstats_%s_test.go" % name)
        with open(p, "w") as fh:
            fh.write(tmpl.replace("PKGNAME", name))
        replace[os.path.join(REPO, mod, pkg, "zz_verif_vstats_%s_test.go" % name)] = p
    # go.mod / go.sum derived from the repo's current files
    gomod = open(os.path.join(REPO, mod, "go.mod")).read()
    req = "\nrequire (\n" + "".join("\t%s %s\n" % kv for kv in EXTRA_REQ.items()) + ")\n"
    with open(os.path.join(bdir, "go.mod"), "w") as fh:
        fh.write(gomod + req)
    gosum = open(os.path.join(REPO, mod, "go.sum")).read()
    with open(os.path.join(bdir, "go.sum"), "w") as fh:
        fh.write(gosum.rstrip("\n") + "\n" + "\n".join(extra_sum_lines()) + "\n")
    replace[os.path.join(REPO, mod, "go.mod")] = os.path.join(bdir, "go.mod")
    replace[os.path.join(REPO, mod, "go.sum")] = os.path.join(bdir, "go.sum")
    ov = os.path.join(bdir, "overlay.json")
    json.dump({"Replace": replace}, open(ov, "w"), indent=1)
    out = os.path.join(bdir, "t.test")
    go, env = go_env()
    cmd = [go, "test", "-c", "-vet=off", "-overlay", ov, "-o", out]
    if race:
        cmd.append("-race")
    if fuzz:
        # coverage instrumentation for native fuzzing (without it `-test.fuzz` mutates blindly)
        cmd.append("-fuzz=FuzzVerif")
    cmd.append("./" + pkg)
    t0 = time.time()
    p = subprocess.run(cmd, cwd=os.path.join(REPO, mod), env=env, stdout=subprocess.PIPE, stderr=subprocess.STDOUT, text=True)
    if p.returncode != 0 or not os.path.exists(out):
        raise RuntimeError("HARNESS-BUILD-FAILED unit=%s\n%s" % (unit, p.stdout[-6000:]))
    log("built %s%s%s in %.1fs" % (unit, " (race)" if race else "", " (fuzz-instrumented)" if fuzz else "", time.time() - t0))
    return out


# ----------------------------------------------------------------------- run
def seed_for(base, test, shard):
    h = int(hashlib.sha256(("%d/%s/%d" % (base, test, shard)).encode()).hexdigest()[:12], 16)
    s = (h % 2000000000) + 1  # never 0: rapid treats 0 as "random"
    return s


class Proc:
    def __init__(self, spec, shard, checks, seed, binpath, cwd, timeout, extra_args=None, env_extra=None):
        self.spec, self.shard, self.checks, self.seed = spec, shard, checks, seed
        self.bin, self.cwd, self.timeout = binpath, cwd, timeout
        self.extra_args = extra_args or []
        self.env_extra = env_extra or {}
        self.rc = None
        self.out = ""
        self.wall = 0.0
        self.timed_out = False

    @property
    def name(self):
        return self.spec["name"]

    def run(self):
        os.makedirs(self.cwd, exist_ok=True)
        shutil.rmtree(os.path.join(self.cwd, "testdata", "rapid"), ignore_errors=True)
        env = dict(os.environ)
        env["VERIF_STATS"] = self.cwd
        env["VERIF_TIER"] = self.env_extra.get("VERIF_TIER", "quick")
        gd = env.get("GODEBUG", "")
        env["GODEBUG"] = (gd + "," if gd else "") + "randseednop=0"
        env.update(self.env_extra)
        args = [self.bin, "-test.run", "^%s$" % self.name, "-test.v", "-test.count=1",
                "-test.timeout", "%ds" % (self.timeout + 60)]
        if self.spec.get("kind", "rapid") == "rapid":
            args += ["-rapid.checks=%d" % self.checks, "-rapid.seed=%d" % self.seed,
                     "-rapid.shrinktime=%s" % self.spec.get("shrinktime", "20s")]
        args += self.extra_args
        t0 = time.time()
        try:
            p = subprocess.run(args, cwd=self.cwd, env=env, stdout=subprocess.PIPE, stderr=subprocess.STDOUT,
                               timeout=self.timeout + 90)
            self.rc, self.out = p.returncode, p.stdout.decode("utf-8", "replace")
        except subprocess.TimeoutExpired as e:
            self.rc, self.timed_out = -999, True
            self.out = (e.stdout or b"").decode("utf-8", "replace")
        self.wall = time.time() - t0
        with open(os.path.join(self.cwd, "output.log"), "w") as fh:
            fh.write(" ".join(args) + "\n" + self.out)
        return self


def classify(proc):
    """-> ('ok'|'violation'|'infra', detail)"""
    out = proc.out
    if proc.timed_out or "panic: test timed out" in out:
        return "infra", "timeout after %.0fs" % proc.wall
    if "VERIF-INCONCLUSIVE" in out:
        m = re.search(r"VERIF-INCONCLUSIVE:? *(.*)", out)
        return "infra", "harness inconclusive: " + (m.group(1)[:200] if m else "")
    if proc.rc == 0:
        if proc.spec.get("kind", "rapid") == "rapid":
            passed = sum(int(x) for x in re.findall(r"\[rapid\] OK, passed (\d+) tests", out))
            want = proc.checks * int(proc.spec.get("rapid_checks_per_test", 1))
            if passed < want:
                return "infra", "rapid ran %d of %d requested cases" % (passed, want)
        return "ok", ""
    if proc.rc < 0 and proc.rc != -999:
        return "infra", "killed by signal %d" % (-proc.rc)
    if any(a.startswith("-test.fuzz=") for a in proc.extra_args):
        # A fuzzing campaign reports a finding by writing a crasher file. Under heavy load the Go fuzz
        # coordinator can end with "context deadline exceeded" (a worker did not answer in time) and no
        # crasher: that is the end of the time budget, not a violation.
        crash = [f for f in glob.glob(os.path.join(proc.cwd, "testdata", "fuzz", "*", "*"))
                 if os.path.isfile(f) and not os.path.basename(f).startswith("seed-")]
        if not crash and "context deadline exceeded" in out and "panic:" not in out and "Failing input written" not in out:
            return "ok", "fuzz coordinator deadline without crasher"
    if "cannot allocate memory" in out or "out of memory" in out:
        return "infra", "out of memory"
    if "[rapid] flaky test" in out:
        return "violation", "flaky (schedule dependent) failure"
    if "[rapid] failed" in out or "--- FAIL" in out or "panic:" in out or "DATA RACE" in out or "fatal error:" in out:
        return "violation", ""
    if "no tests to run" in out:
        return "infra", "test function missing"
    return "infra", "exit status %d" % proc.rc


def first_failure_text(out, limit=1800):
    idx = [out.find(k) for k in ("[rapid] failed", "[rapid] flaky", "WARNING: DATA RACE", "panic:", "fatal error:", "--- FAIL")]
    idx = [i for i in idx if i >= 0]
    if not idx:
        return out[-limit:]
    i = max(0, min(idx) - 200)
    return out[i:i + limit]


def load_known(pid):
    known, fixed = {}, []
    p = os.path.join(VERIF, "known_findings.txt")
    if os.path.exists(p):
        for line in open(p):
            line = line.strip()
            if not line or line.startswith("#"):
                continue
            m = re.match(r"known:\s+property=(\S+)\s+sig=(\S+)\s*(.*)", line)
            if m and m.group(1) == pid:
                known[m.group(2)] = m.group(3)
            m = re.match(r"fixed:\s+property=(\S+)\s+(\S+)\s*(.*)", line)
            if m and m.group(1) == pid:
                fixed.append(m.group(3))
    return known, fixed


def save_replay(pid, proc):
    rdir = os.path.join(OUT, "replays", pid)
    os.makedirs(rdir, exist_ok=True)
    fails = glob.glob(os.path.join(proc.cwd, "testdata", "rapid", "**", "*.fail"), recursive=True)
    crash = [f for f in glob.glob(os.path.join(proc.cwd, "testdata", "fuzz", "*", "*")) if os.path.isfile(f)
             and not os.path.basename(f).startswith("seed-")]
    if fails:
        src = sorted(fails)[-1]
        dst = os.path.join(rdir, "%s--s%d.fail" % (proc.name, proc.seed))
        shutil.copy(src, dst)
        return dst
    if crash and proc.spec.get("kind") == "fuzz":
        src = sorted(crash, key=os.path.getmtime)[-1]
        dst = os.path.join(rdir, "%s--%s.fuzz" % (proc.name, os.path.basename(src)[:16]))
        shutil.copy(src, dst)
        return dst
    dst = os.path.join(rdir, "%s--s%d.seed.json" % (proc.name, proc.seed))
    json.dump({"test": proc.name, "kind": proc.spec.get("kind", "rapid"), "seed": proc.seed, "checks": proc.checks,
               "args": proc.extra_args, "env": proc.env_extra,
               "failure": first_failure_text(proc.out)}, open(dst, "w"), indent=1)
    return dst


def merge_stats(procs):
    tests = {}
    for pr in procs:
        for f in glob.glob(os.path.join(pr.cwd, "vstats-*.json")):
            try:
                d = json.load(open(f))
            except Exception:
                continue
            t = tests.setdefault(d["name"], {"cases": 0, "nontrivial": 0, "classes": {}, "fps": set(), "fp_lower": 0,
                                            "samples": [], "excluded": {}, "complete": True, "extra": {}})
            t["cases"] += d.get("cases", 0)
            t["nontrivial"] += d.get("nontrivial", 0)
            for k, v in (d.get("classes") or {}).items():
                t["classes"][k] = t["classes"].get(k, 0) + v
            for k, v in (d.get("excluded") or {}).items():
                t["excluded"][k] = t["excluded"].get(k, 0) + v
            for k, v in (d.get("extra") or {}).items():
                t["extra"][k] = v
            if d.get("fp_truncated"):
                t["complete"] = False
            t["fp_lower"] = max(t["fp_lower"], d.get("distinct_nontrivial", 0))
            t["fps"].update(d.get("fps") or [])
            for s in (d.get("samples") or []):
                if len(t["samples"]) < 6:
                    t["samples"].append(s)
    for t in tests.values():
        t["distinct_nontrivial"] = len(t["fps"]) if t["complete"] else max(t["fp_lower"], len(t["fps"]))
        del t["fps"]
    return tests


def fuzz_execs(out):
    m = re.findall(r"execs: (\d+) .*?new interesting: (\d+) \(total: (\d+)\)", out)
    if m:
        return int(m[-1][0]), int(m[-1][2])
    m = re.findall(r"execs: (\d+)", out)
    return (int(m[-1]), 0) if m else (0, 0)


def write_evidence(pid, tier, seed, prop, tests, procs, violations, wall, notes):
    evals = sum(t["cases"] for t in tests.values())
    distinct = sum(t["distinct_nontrivial"] for t in tests.values())
    samples = []
    for name, t in sorted(tests.items()):
        for s in t["samples"][:3]:
            samples.append({"test": name, "case": s})
    fuzz = {}
    for pr in procs:
        if pr.spec.get("kind") == "fuzz" and pr.extra_args and any(a.startswith("-test.fuzz=") for a in pr.extra_args):
            e, interesting = fuzz_execs(pr.out)
            fuzz[pr.name] = {"execs": e, "corpus_interesting": interesting}
            evals += e
    ev = {
        "property_id": pid,
        "tier": tier,
        "seed": seed,
        "level": "exploration",
        "coverage": {
            "evaluations": evals,
            "distinct_nontrivial": distinct,
            "rule": prop.get("rule", ""),
            "samples": samples[:12] if samples else [],
            "per_test": {k: {kk: vv for kk, vv in v.items() if kk not in ("samples",)} for k, v in sorted(tests.items())},
            "native_fuzz": fuzz,
            "processes": len(procs),
            "notes": notes,
        },
        "assumptions": prop.get("assumptions", []),
        "wall_s": round(wall, 2),
        "violations": violations,
    }
    os.makedirs(os.path.join(OUT, "evidence"), exist_ok=True)
    tmp = os.path.join(OUT, "evidence", ".%s.json.tmp" % pid)
    json.dump(ev, open(tmp, "w"), indent=1, sort_keys=True)
    os.replace(tmp, os.path.join(OUT, "evidence", "%s.json" % pid))


def stage_corpus(spec, cwd):
    """Committed regression inputs for a fuzz target -> cwd/testdata/fuzz/<Name>/ (replayed by -test.run)."""
    src = os.path.join(VERIF, "corpus", spec["name"])
    dst = os.path.join(cwd, "testdata", "fuzz", spec["name"])
    shutil.rmtree(os.path.join(cwd, "testdata", "fuzz"), ignore_errors=True)
    if os.path.isdir(src):
        os.makedirs(dst, exist_ok=True)
        for f in os.listdir(src):
            shutil.copy(os.path.join(src, f), os.path.join(dst, "seed-" + f))


def prefixes_of(pid):
    p = registry.PROPS[pid]
    return tuple(p.get("file_prefixes", [pid.lower() + "_"])) + ("shared_",)


def run_property(pid, tier, base_seed):
    prop = registry.PROPS[pid]
    # one work directory per invocation, so concurrent runs of the same check cannot disturb each other
    wdir = os.path.join(WORK, "%s-%s" % (pid, tier) if os.environ.get("VERIF_KEEP_WORK") else "%s-%s.%d" % (pid, tier, os.getpid()))
    shutil.rmtree(wdir, ignore_errors=True)
    os.makedirs(wdir, exist_ok=True)
    for old in glob.glob(os.path.join(WORK, "C*-*.*")):  # leftovers of failed runs older than 6 h
        try:
            if time.time() - os.path.getmtime(old) > 6 * 3600:
                shutil.rmtree(old, ignore_errors=True)
        except OSError:
            pass
    t0 = time.time()
    known, _fixed = load_known(pid)
    # ---- build
    bins = {}
    need = set()
    for spec in prop["tests"]:
        if tier == "quick" and spec.get("thorough_only"):
            continue
        need.add((spec["unit"], bool(spec.get("race")), False))
        if tier == "thorough" and spec.get("kind") == "fuzz" and spec.get("fuzz_secs", 0) > 0:
            need.add((spec["unit"], False, True))
    try:
        with cf.ThreadPoolExecutor(max_workers=4) as ex:
            futs = {ex.submit(build_unit, u, wdir, r, prefixes_of(pid), fz): ((u, r) if not fz else (u, "fuzz")) for (u, r, fz) in sorted(need)}
            for f in cf.as_completed(futs):
                bins[futs[f]] = f.result()
    except RuntimeError as e:
        log(str(e))
        log("INCONCLUSIVE property=%s reason=build" % pid)
        return 2
    # ---- plan processes
    procs, fuzzers = [], []
    env_extra = {"VERIF_TIER": tier, "VERIF_KNOWN": ",".join(sorted(known))}
    for spec in prop["tests"]:
        if tier == "quick" and spec.get("thorough_only"):
            continue
        b = bins[(spec["unit"], bool(spec.get("race")))]
        kind = spec.get("kind", "rapid")
        if kind == "fuzz":
            cwd = os.path.join(wdir, "run", spec["name"] + ".seedcorpus")
            os.makedirs(cwd, exist_ok=True)
            stage_corpus(spec, cwd)
            procs.append(Proc(spec, 0, 0, 0, b, cwd, spec.get("timeout", 300), env_extra=env_extra))
            if tier == "thorough" and spec.get("fuzz_secs", 0) > 0:
                fuzzers.append((spec, bins[(spec["unit"], "fuzz")]))
            continue
        checks = spec.get(tier, spec.get("quick", 100))
        shards = spec.get("shards", 1) if tier == "quick" else spec.get("shards_thorough", 8)
        if kind == "plain":
            shards, checks = 1, 0
        timeout = spec.get("timeout_" + tier, 600 if tier == "quick" else 3600)
        for sh in range(shards):
            cwd = os.path.join(wdir, "run", "%s.%d" % (spec["name"], sh))
            procs.append(Proc(spec, sh, checks, seed_for(base_seed, spec["name"], sh), b, cwd, timeout, env_extra=env_extra))
    # ---- run
    done = []
    with cf.ThreadPoolExecutor(max_workers=JOBS) as ex:
        for pr in ex.map(lambda p: p.run(), procs):
            done.append(pr)
    for spec, b in fuzzers:  # native fuzzing uses all cores by itself: one at a time
        cwd = os.path.join(wdir, "run", spec["name"] + ".fuzz")
        os.makedirs(cwd, exist_ok=True)
        stage_corpus(spec, cwd)
        secs = spec["fuzz_secs"]
        fz = Proc(dict(spec), 0, 0, 0, b, cwd, secs + 240, env_extra=env_extra,
                  extra_args=["-test.fuzz=^%s$" % spec["name"], "-test.fuzztime=%ds" % secs,
                              "-test.fuzzcachedir=%s" % os.path.join(cwd, "fuzzcache"), "-test.parallel=%d" % JOBS])
        fz.spec["noregex"] = True
        done.append(fz.run())
        shutil.rmtree(os.path.join(cwd, "fuzzcache"), ignore_errors=True)
    # ---- an inconclusive process (timeout under load, environment hiccup) is re-run once, alone
    retried = 0
    for i, pr in enumerate(done):
        verdict, detail = classify(pr)
        if verdict == "infra" and not any(a.startswith("-test.fuzz=") for a in pr.extra_args):
            log("retrying inconclusive %s shard %d (%s)" % (pr.name, pr.shard, detail))
            for f in glob.glob(os.path.join(pr.cwd, "vstats-*.json")):
                os.remove(f)
            shutil.copy(os.path.join(pr.cwd, "output.log"), os.path.join(pr.cwd, "output.first.log"))
            pr.timed_out = False
            pr.timeout = int(pr.timeout * 1.5)
            pr.run()
            retried += 1
    # ---- verdict
    violations, infra, known_hits = [], [], []
    for pr in done:
        verdict, detail = classify(pr)
        if verdict == "ok":
            continue
        if verdict == "infra":
            infra.append((pr, detail))
            continue
        sig = pr.spec.get("known_sig")
        if sig and sig in known:
            known_hits.append((pr, sig))
            continue
        violations.append((pr, detail))
    tests = merge_stats(done)
    wall = time.time() - t0
    notes = []
    if retried:
        notes.append("%d inconclusive process(es) were re-run once" % retried)
    for pr, sig in known_hits:
        notes.append("known finding reproduced: %s" % sig)
    for pr, d in infra:
        notes.append("inconclusive: %s shard %d: %s" % (pr.name, pr.shard, d))
    write_evidence(pid, tier, base_seed, prop, tests, done, len(violations), wall, notes)
    tot = sum(t["cases"] for t in tests.values())
    dn = sum(t["distinct_nontrivial"] for t in tests.values())
    log("property=%s tier=%s seed=%d processes=%d cases=%d distinct_nontrivial=%d wall=%.1fs" %
        (pid, tier, base_seed, len(done), tot, dn, wall))
    for pr, sig in known_hits:
        log("KNOWN-FINDING: property=%s %s %s" % (pid, sig, known[sig]))
    if violations:
        seen = set()
        for pr, detail in violations:
            path = save_replay(pid, pr)
            log("---- failing check %s (shard %d, seed %d) %s" % (pr.name, pr.shard, pr.seed, detail))
            log(first_failure_text(pr.out))
            if pr.name in seen:
                continue
            seen.add(pr.name)
            log("VIOLATION property=%s replay=%s" % (pid, path))
        return 1
    if infra:
        for pr, d in infra:
            log("INCONCLUSIVE property=%s check=%s shard=%d reason=%s" % (pid, pr.name, pr.shard, d))
            log(pr.out[-1500:])
        return 2
    if not os.environ.get("VERIF_KEEP_WORK"):
        shutil.rmtree(wdir, ignore_errors=True)
    return 0


def run_replay(pid, path):
    prop = registry.PROPS[pid]
    base = os.path.basename(path)
    name = base.split("--")[0]
    spec = next((s for s in prop["tests"] if s["name"] == name), None)
    if spec is None:
        log("unknown check %s for %s" % (name, pid))
        return 2
    wdir = os.path.join(WORK, "%s-replay" % pid)
    shutil.rmtree(wdir, ignore_errors=True)
    try:
        b = build_unit(spec["unit"], wdir, bool(spec.get("race")), prefixes_of(pid))
    except RuntimeError as e:
        log(str(e))
        return 2
    cwd = os.path.join(wdir, "run")
    os.makedirs(cwd, exist_ok=True)
    known, _ = load_known(pid)
    env_extra = {"VERIF_TIER": "quick", "VERIF_KNOWN": ",".join(sorted(known))}
    if base.endswith(".fail"):
        pr = Proc(spec, 0, 1, 1, b, cwd, 600, extra_args=["-rapid.failfile=%s" % os.path.abspath(path)], env_extra=env_extra)
    elif base.endswith(".fuzz"):
        d = os.path.join(cwd, "testdata", "fuzz", name)
        os.makedirs(d, exist_ok=True)
        shutil.copy(path, os.path.join(d, "replay"))
        sp = dict(spec)
        sp["kind"] = "fuzz"
        pr = Proc(sp, 0, 0, 0, b, cwd, 600, env_extra=env_extra)
    else:
        meta = json.load(open(path))
        pr = Proc(spec, 0, meta.get("checks", 100), meta.get("seed", 1), b, cwd, 1800,
                  extra_args=meta.get("args", []), env_extra=env_extra)
    pr.run()
    verdict, detail = classify(pr)
    log(first_failure_text(pr.out) if verdict != "ok" else "replay passed: %s" % name)
    if verdict == "violation":
        log("VIOLATION property=%s replay=%s" % (pid, os.path.abspath(path)))
        return 1
    return 0 if verdict == "ok" else 2


def main(argv):
    ap = argparse.ArgumentParser()
    ap.add_argument("pid")
    ap.add_argument("--tier", default=os.environ.get("VERIF_TIER") or "quick", choices=["quick", "thorough"])
    ap.add_argument("--replay")
    a = ap.parse_args(argv)
    if a.pid not in registry.PROPS:
        log("unknown property " + a.pid)
        return 2
    try:
        seed = int(os.environ.get("VERIF_SEED", "1") or "1")
    except ValueError:
        seed = 1
    if a.replay:
        return run_replay(a.pid, a.replay)
    try:
        return run_property(a.pid, a.tier, seed)
    except Exception as e:  # infrastructure trouble is never a violation
        import traceback
        traceback.print_exc()
        log("INCONCLUSIVE property=%s reason=driver-exception %s" % (a.pid, e))
        return 2
