#!/bin/bash
# Confirms a seeded change independently and, if it holds up, stores it under /verif/seeded/<name>/.
#   driver/confirmseed.sh <dir with patch.diff meta.json demo files demo_cmd.txt> <name>
# Checks in a fresh scratch worktree of /repo HEAD: demo passes on pristine tree; patch applies; builds; touched packages'
# existing tests give the same pass/fail as pristine; demo fails with the patch.
set -u
SRC=$(realpath $1); NAME=$2
GO=/root/go/pkg/mod/golang.org/toolchain@v0.0.1-go1.25.0.linux-amd64/bin/go
export GOTOOLCHAIN=local GOPROXY=off GOFLAGS=
WT=/tmp/confirm-$NAME
git -C /repo worktree remove --force $WT >/dev/null 2>&1; rm -rf $WT
git -C /repo worktree add --detach $WT HEAD >/dev/null 2>&1 || { echo "worktree failed"; exit 2; }
cleanup() { git -C /repo worktree remove --force $WT >/dev/null 2>&1; rm -rf $WT; }
# touched packages (module dir + package dir)
pkgs=$(grep '^+++ b/' $SRC/patch.diff | sed 's|^+++ b/||' | grep '\.go$' | xargs -n1 dirname | sort -u)
# copy demo files next to where demo_cmd says; convention: demo files are *_test.go or main.go with a DEST line in demo_cmd.txt
democmd=$(grep -v '^#' $SRC/demo_cmd.txt | grep -v '^\s*$' | tail -1)
demodir=$(grep -m1 -i '^# *dir:' $SRC/demo_cmd.txt | sed 's/^# *[dD]ir: *//')
dest=$(grep -m1 -i '^# *dest:' $SRC/demo_cmd.txt | sed 's/^# *[dD]est: *//')
[ -z "$demodir" -o -z "$dest" ] && { echo "demo_cmd.txt needs '# dir: <relative dir to run in>' and '# dest: <relative dir for demo files>' lines"; cleanup; exit 2; }
mkdir -p $WT/$dest
for f in $SRC/*; do case $(basename $f) in patch.diff|meta.json|demo_cmd.txt|confirm.log) ;; *) cp -r $f $WT/$dest/ ;; esac; done
run_tests() { for p in $pkgs; do mod=${p%%/*}; rel=${p#*/}; ( cd $WT/$mod && unshare -n bash -c "ip link set lo up; timeout 900 $GO test -count=1 -json ./$rel/ 2>&1" | python3 -c "
import sys,json
for l in sys.stdin:
    try: e=json.loads(l)
    except Exception: continue
    if e.get('Action') in ('pass','fail') and e.get('Test'): print('$p', e['Test'], e['Action'])
" ); done | sort; }
run_demo() { ( cd $WT/$demodir && unshare -n bash -c "ip link set lo up; export PATH=$(dirname $GO):\$PATH; timeout 900 $democmd" ) > $WT/demo.out 2>&1; echo $?; }
exec > >(tee $SRC/confirm.log) 2>&1
echo "== $NAME: packages: $pkgs"
r0=$(run_demo); echo "demo on pristine tree: rc=$r0"
# hide demo files while running the existing tests (they are not part of the suite)
mkdir -p /tmp/confirm-$NAME-demo; 
base=$(cd $WT && for f in $SRC/*; do b=$(basename $f); case $b in patch.diff|meta.json|demo_cmd.txt|confirm.log) ;; *) mv $WT/$dest/$b /tmp/confirm-$NAME-demo/ ;; esac; done; run_tests)
git -C $WT apply $SRC/patch.diff || { echo "PATCH DOES NOT APPLY"; cleanup; exit 1; }
( cd $WT && for m in core extras app; do (cd $m && $GO build ./... ) || echo "BUILD FAILED in $m"; done )
mut=$(run_tests)
mv /tmp/confirm-$NAME-demo/* $WT/$dest/; rmdir /tmp/confirm-$NAME-demo
if [ "$base" == "$mut" ]; then echo "existing tests of touched packages: same pass/fail set ($(echo "$base" | grep -c pass) pass, $(echo "$base" | grep -c fail) fail)"; same=1;
else
  # tests that pass WITH the change but failed on the pristine run are load-flaky tests of the repository, not an effect of the change
  newfail=$(comm -13 <(echo "$base" | grep ' fail$' | sort) <(echo "$mut" | grep ' fail$' | sort))
  if [ -z "$newfail" ]; then echo "existing tests of touched packages: no test fails with the change that passed without it (pristine run had load-flaky failures: $(comm -23 <(echo "$base" | grep ' fail$' | sort) <(echo "$mut" | grep ' fail$' | sort) | tr '\n' ';'))"; same=1;
  else echo "EXISTING TESTS DIFFER (fail only with the change):"; echo "$newfail"; same=0; fi
fi
r1=$(run_demo); echo "demo with change: rc=$r1"; tail -5 $WT/demo.out
if [ "$r0" == "0" ] && [ "$r1" != "0" ] && [ "$same" == "1" ]; then
  mkdir -p /verif/seeded/$NAME && cp -r $SRC/* /verif/seeded/$NAME/ && echo "CONFIRMED -> /verif/seeded/$NAME"
else echo "NOT CONFIRMED ($NAME)"; fi
cleanup
