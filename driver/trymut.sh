#!/bin/bash
# usage: driver/trymut.sh <ID> <name> <file-relative-to-repo> <python-expr old=>new pairs via stdin as: OLD<TAB-free marker>...>
# Simplified: trymut.sh <ID> <name> <patch-command...>  runs the command with cwd = scratch worktree, then the check, then reverts.
set -u
ID=$1; NAME=$2; shift 2
WT=/tmp/wt-mut-$ID
if [ ! -d $WT ]; then git -C /repo worktree add --detach $WT HEAD >/dev/null 2>&1 || { echo "worktree failed"; exit 9; }; fi
git -C $WT checkout -q --detach $(git -C /repo rev-parse HEAD) 2>/dev/null
git -C $WT checkout -- . 
( cd $WT && bash -c "$*" ) || { echo "MUTATION-FAILED-TO-APPLY $NAME"; exit 9; }
if git -C $WT diff --quiet; then echo "MUTATION-NOOP $NAME"; exit 9; fi
VERIF_REPO=$WT VERIF_WORK=/tmp/wt-mut-$ID-work VERIF_OUT=/tmp/wt-mut-$ID-out timeout 1800 /verif/check $ID --tier ${TIER:-quick} > /tmp/wt-mut-$ID-last.log 2>&1
rc=$?
echo "MUTANT $ID/$NAME rc=$rc $(grep -m1 -o 'VIOLATION.*' /tmp/wt-mut-$ID-last.log | cut -c1-120) $(grep -m1 'failing check' /tmp/wt-mut-$ID-last.log | cut -c1-100)"
git -C $WT checkout -- .
exit 0
