#!/usr/bin/env python3
"""Regenerates /verif/MANIFEST.json from harness/registry.py (claimed properties) and
the not_applicable table below. Run after editing the registry."""
import json, os, sys
V = os.path.dirname(os.path.dirname(os.path.abspath(__file__)))
sys.path.insert(0, os.path.join(V, "harness"))
import registry

ALL = [json.loads(l)["id"] for l in open(os.path.join(V, "properties.jsonl")) if l.strip()]

CLAIMED = set(l.strip() for l in open(os.path.join(V, "harness", "claimed.txt")) if l.strip() and not l.startswith("#"))
checks = []
for pid in ALL:
    p = registry.PROPS.get(pid)
    if not p or pid not in CLAIMED:
        continue
    checks.append({
        "property_id": pid,
        "quick_cmd": "./check %s --tier quick" % pid,
        "thorough_cmd": "./check %s --tier thorough" % pid,
        "evidence_file": "/verif/evidence/%s.json" % pid,
        "replay_cmd_template": "./check %s --replay {path}" % pid,
        "engine": "rapid+gofuzz",
        "level_claimed": {"category": "exploration", "text": p["level_text"], "design_ref": p.get("design_ref", "DESIGN.md section 2, " + pid)},
        "level_note": p["level_note"],
        "technique": p["technique"],
    })
na = []
for pid in ALL:
    if pid not in [c["property_id"] for c in checks]:
        na.append({"property_id": pid, "reason": registry.NOT_YET.get(pid, "check not built yet (work in progress); see DESIGN.md section 2 for the planned generator and oracle")})
m = {
    "version": 1,
    "setup_cmd": "./setup.sh",
    "hooks": {
        "guard": "verif",
        "enable": "no source hooks: harness _test.go files are injected at build time with `go test -c -overlay` (see DESIGN.md 1.1); the tag is reserved and unused",
        "baseline_off_cmd": "for m in $(cat /w/out/gomods.txt); do MF=$(cd /repo/$m && . /w/out/goenv.sh && gomodflag); (cd /repo/$m && go test $MF -json -vet=off -count=1 -timeout 25m ./...); done",
        "source_commits": [],
        "add_only": True,
    },
    "engines": [{"name": "rapid+gofuzz", "path": "/verif/check", "serves_properties": [c["property_id"] for c in checks],
                 "kind_free_text": "pgregory.net/rapid v1.3.0 property-based tests (stateful where the property is over histories) and native go fuzz targets, compiled into the package under test with go test -c -overlay against /repo's working tree"}],
    "checks": checks,
    "not_applicable": na,
    "notes": "Every check: ./check <ID> --tier quick|thorough; exit 0 held / 1 VIOLATION / 2 inconclusive (build failure, timeout, case shortfall). VERIF_SEED selects the rapid seeds. Genuine defects found and repaired are listed as fixed: lines in known_findings.txt.",
}
json.dump(m, open(os.path.join(V, "MANIFEST.json"), "w"), indent=1)
print("claimed:", [c["property_id"] for c in checks])
print("not claimed:", [n["property_id"] for n in na])
