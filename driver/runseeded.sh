#!/bin/bash
# Runs the registered check of each seeded change's property against the change.
#   driver/runseeded.sh [name ...]      (default: every directory under /verif/seeded)
# Each /verif/seeded/<name>/ holds patch.diff + meta.json {"property": "Cxx", ...}.
# The patch is applied in a scratch worktree of /repo's HEAD (outside /repo and /verif) which is
# removed afterwards; equivalent to `git -C /repo apply` + check + `git -C /repo checkout -- .`
# but safe while other jobs use /repo. Result lines are appended to /verif/seeded/RESULTS.tsv.
cd "$(dirname "$0")/.."
names=("$@"); if [ ${#names[@]} -eq 0 ]; then names=($(ls seeded | grep -v RESULTS)); fi
for n in "${names[@]}"; do
  d=seeded/$n; [ -f $d/patch.diff ] || continue
  pid=$(python3 -c "import json;print(json.load(open('$d/meta.json'))['property'])")
  wt=/tmp/seedrun-$n
  git -C /repo worktree remove --force $wt >/dev/null 2>&1; rm -rf $wt
  git -C /repo worktree add --detach $wt HEAD >/dev/null 2>&1 || { echo "$n worktree-failed"; continue; }
  if ! git -C $wt apply $PWD/$d/patch.diff; then echo -e "$n\t$pid\tPATCH-DOES-NOT-APPLY" | tee -a seeded/RESULTS.tsv; git -C /repo worktree remove --force $wt; continue; fi
  VERIF_REPO=$wt VERIF_WORK=/tmp/seedrun-$n-work VERIF_OUT=/tmp/seedrun-$n-out timeout 3600 ./check $pid --tier ${TIER:-quick} > /tmp/seedrun-$n.log 2>&1
  rc=$?
  tests=$(grep 'failing check' /tmp/seedrun-$n.log | awk '{print $4}' | sort -u | tr '\n' ',' )
  echo -e "$n\t$pid\ttier=${TIER:-quick}\trc=$rc\t$tests\t$(git -C /repo rev-parse --short HEAD)/$(git rev-parse --short HEAD)" | tee -a seeded/RESULTS.tsv
  git -C /repo worktree remove --force $wt >/dev/null 2>&1; rm -rf $wt /tmp/seedrun-$n-work /tmp/seedrun-$n-out
done
