#!/bin/sh
# Offline setup: verify the toolchain and the cached harness-only modules, warm the build cache.
set -e
cd "$(dirname "$0")"
python3 - <<'PY'
import sys, os
sys.path.insert(0, "driver")
import vdriver
go, env = vdriver.find_go()
print("go toolchain:", go)
for l in vdriver.extra_sum_lines():
    print("go.sum +", l)
PY
if [ -z "$VERIF_SKIP_WARM" ]; then
  python3 - <<'PY'
import sys, os, shutil
sys.path.insert(0, "driver")
import vdriver, registry
units = set()
for p in registry.PROPS.values():
    for t in p["tests"]:
        units.add((t["unit"], bool(t.get("race"))))
w = os.path.join(vdriver.WORK, "setup-warm")
bad = 0
for u, r in sorted(units):
    try:
        vdriver.build_unit(u, w, r)
    except RuntimeError as e:
        print(e); bad += 1
shutil.rmtree(w, ignore_errors=True)
print("warm build done, failures:", bad)
PY
fi
echo setup ok
